#!/usr/bin/env python3
"""py2v: fail-closed translator from the Python ast of /repo/src/beziers to Gallina over `Ops` (DESIGN 2.2).

It is a partial evaluator: control points of a segment, matrix entries, loop bounds that depend only on the
arity of a segment and string/bool flags are resolved at translation time; everything numeric becomes a Coq
term over the scalar record `O : Ops T`.  Anything outside the supported fragment raises Untranslatable,
which the check driver reports as a broken obligation (never silently skipped).

Data-dependent `while` loops become fuelled Fixpoints (FunTx.stmt_while) and the modelled exceptions (IndexError of
l[-1] / l[k], ValueError / OverflowError of math.floor) values of `outcome`; which functions may loop or raise is
declared in EFFECTS and checked.  Gen/Sample.v (sampling loops, path evaluation, flatteners) is written this way.

Third round (Gen/Nodelist.v, Gen/Sweep.v, Gen/Split.v; the tables and comments marked `round 3` below):
  * classes as Coq records built by running their own __init__ (RECORDS), the three node-type strings as a three-constructor
    type (NODE_TYPES), run-time ints as Z ('Z': enumerate, Python indexing / slicing by a negative int), `len(seg)` of a segment
    of unknown class and `len(l) == k` of a list as matches that narrow the value (split_on_class, items_view), `for` loops
    with `break` (break_fold) and `for` loops whose body raises or consumes fuel (fold_loop_x: fold_outcome / fold_option),
    `raise ValueError(..)`, mutators that raise;
  * local functions used as procedures and stored in tuples, and the local deques they share (prepare_closures): closures are
    expanded at the call, references to the two functions / two deques are bools decided at translation time from what the
    tuple names, every update through a reference reaches the deque it stands for (update_through); `sorted(key=lambda)`,
    lambdas passed to functions that only call them, functions that update an argument in place;
  * dicts keyed by segment value as association lists, through a fixed set of idioms ('DICT'); `x = l.pop(0)`, the
    element-wise update loops as maps (elementwise_idioms).
Everything outside these shapes is Untranslatable, as before.

Fourth round (Gen/CurveCurve.v, Gen/MinDist.v, Gen/Winding.v; the tables and comments marked `round 4` below):
  * self-recursive methods as a `Fixpoint` on fuel (RECURSIVE: fuel = the recursion depth still allowed, None = it ran out; the
    result type and the abstract parameters are declared and checked); `assert <run-time test>` as `Raises PyAssertionError`,
    a BoundingBox whose corners may still be None used as a box as `Raises PyNoneError` (the two constructors added to `pyexc`);
    an `and` whose later operands may raise, as an `outcome bool`; an `if` with effectful branches followed by more code joined
    through the outcome of its branches instead of duplicating the continuation (only in the functions of JOIN_EFFECTS);
  * an attribute set on a freshly created segment (`c11._range = [lo, hi]`) as the record `ranged` (('RNG', segtype)); a segment as
    its constructor made it has the range its __init__ sets; a float parameter that is a translation-time constant ('KF'),
    `Decimal(str(<it>)).as_tuple().exponent` evaluated at translation time, `"%.<d>f" % x` as an abstract parameter
    `fmt_<d>f : T -> K` of the definition together with the equality `keq` of its results ('STR'; any other `%` is
    Untranslatable), `Y = filter(F, L); return Y` with F a local function updating a local dict as a fold (filter_idiom), the
    lazy result as ('IT', t): only consumed once, where it is produced;
  * a method of an object with mutable attributes as a state-passing function (STATEFUL: the result is (value, new state)),
    what else they read of the object (len() of an attribute, other methods) as parameters of the definition (OBJECTS), `range()` of
    run-time ints, loops nested in a loop whose body may raise, accumulators that start as None, `min(list, key=lambda)`,
    narrowing of an Optional through `X and ..` / `not X or ..`, None as an operand of arithmetic as `Raises PyNoneError`;
  * Intersection objects that keep their seg1 ('IXS', the _ixs variants of the functions that build them, IXS_ROOTS), dicts keyed
    by Point values (dict_key_P), `d.values()`, `box.extend(<segment>)` and mutators of a box whose corners may be unset,
    `int(math.copysign(<k>, x))` and counters that only ever hold ints as Z, `%` of a run-time int.
Everything outside these shapes is Untranslatable, as before.

Fifth round (Gen/PathOps.v; the tables and comments marked `round 5` below) -- the path-level drivers:
  * a BezierPath of which the `closed` flag matters as the pair (segments, closed) (('PATHC', t)); a segment together with its `_orig`
    attribute ('TSEG'; a Line of it flattens to itself, tag included); `BezierPath.fromSegments(l)` as a fresh path whose flag is the one
    BezierPath.__init__ sets, `p.closed = e` on it;
  * a method call whose receiver and / or 'A' arguments are segments of unknown class and whose callee consumes fuel / may raise for some of
    the classes (s.flatten(d), s.sample(n), a.intersections(b), curveDistance(a, b)): one `match` per unknown class, every arm lifted to
    the union of the effects (seg_dispatch_x); a property that is a constant for some classes and a value for others (seg.hasLoop);
  * `if X and <rest>:` with X an Optional tuple as `if X: if <rest>:`; Intersection objects that keep both segments ('IXSS', the _ixss
    variants); `range()` of len(); `min(<list>)` (ValueError on an empty list); comprehensions with two generators; a function-level
    `from beziers.. import f`;
  * a local variable first assigned inside a loop and read after it (('U', t): reading it while it is unbound is `Raises
    PyUnboundLocalError`, the constructor added to `pyexc`).
Everything outside these shapes is Untranslatable, as before.

Sixth round (Gen/Fit.v extended: the whole curve fitter; Gen/Clip.v; the tables and comments marked `round 6` below):
  * checked arithmetic (CHECKED): in the functions of the fitter a `/` whose divisor is neither a non-zero literal nor a variable
    guarded by the enclosing test (`d != 0`, `d > 0.0`) is `Raises PyZeroDivisionError` on a zero divisor, `math.sqrt(e)` is
    `Raises PyValueError` below zero unless e is a running maximum of non-negative values (nonneg_running_max); the two earlier
    definitions that divide unguarded are translated once more under the suffix _zd (ZD_VARIANTS); None as an operand of list `+`
    is `Raises PyTypeError` (the three constructors added to `pyexc`);
  * a second budget: 'depth' in EFFECTS -- the function (transitively) calls a method that is a Fixpoint on the number of nested
    calls still allowed (`depth`), while `fuel` stays the number of iterations every loop invocation may use;
  * `while True:` loops that are only left by `return` (stmt_while_returning), Python ints as Z throughout a function (ZINT),
    a literal index l[k] as py_index_Z, `len(X) == 0 or <rest reading X[-1]>`, list literals of fixed shape updated item by item
    (`C[0][0] += e`) carried through a loop as tuples, `for i in range(0, len(A)): B[i] = f(A[i], B[i])` as zip_update,
    statement-level calls of classmethods that update an argument in place, a declared result type for a function that may
    return None (RET_DECL), an `if` some of whose paths return and some fall through, followed by more code, joined through
    `inl <result> | inr <the variables it assigns>` instead of duplicating the continuation (JOIN_EARLY).
Everything outside these shapes is Untranslatable, as before.

Seventh round (Gen/Lookup.v; the tables and comments marked `round 7` below) -- the sampled lookup CubicBezier.tOfPoint:
  * `float("inf")` (no other string) as the initial value of a local variable: `Ops` has no infinity, so the variable is an `option T`
    ('XS': None = +infinity, Some x = the float x); only `e < it` / `it > e` (ltb_xinf) and `it = e` are translated on it (ROUND7);
    the `for` over the outcome of regularSampleTValue and the `while precision > 1e-5` loop need nothing new (fold_loop / stmt_while).
Everything outside these shapes is Untranslatable, as before.
"""
import ast, sys, os, hashlib, json
from fractions import Fraction

SRC = os.environ.get('BEZIERS_SRC', '/repo/src/beziers')


class Untranslatable(Exception):
    pass


class EffectInJoin(Untranslatable):
    """an effectful operation under a continuation that is not the function result (a branch of an `if` translated as a value)"""


# ----------------------------------------------------------------------------- values
class Val:
    __slots__ = ('ty', 'tx', 'items', 'const')

    def __init__(self, ty, tx=None, items=None, const=None):
        self.ty, self.tx, self.items, self.const = ty, tx, items, const

    def __repr__(self):
        return f"Val({self.ty!r},{self.tx!r},{self.items!r},{self.const!r})"


SEGN = {'seg2': 2, 'seg3': 3, 'seg4': 4}
SEGPROJ = {'seg2': ['l0', 'l1'], 'seg3': ['q0', 'q1', 'q2'], 'seg4': ['c0', 'c1', 'c2', 'c3']}
SEGCON = {2: 'L2', 3: 'Q3', 4: 'C4'}
SEGTY = {2: 'seg2', 3: 'seg3', 4: 'seg4'}
CLASS_OF = {'P': 'Point', 'seg2': 'Line', 'seg3': 'QuadraticBezier', 'seg4': 'CubicBezier',
            'M': 'AffineTransformation', 'BB': 'BoundingBox', 'PATH': 'BezierPath',
            'NODE': 'Node', 'SREP': 'SegmentRepresentation'}
OBJ_CLASSES = ('MinimumCurveDistanceFinder',)      # round 4: classes modelled as ('OBJ', cls, abs) values, see OBJECTS
# 'PATH': a BezierPath as the list of its segments, `list (segment T)` (what asSegments() returns; the Nodelist representation
# and the conversion inside asSegments are outside the model).  'SEG': one element of it, the sum type `segment T`: attribute
# access and method calls on it dispatch on the constructor to the definitions generated for the three classes.
SEGSUM = [('SLine', 'seg2'), ('SQuad', 'seg3'), ('SCubic', 'seg4')]
TY_OF_CLASS = {v: k for k, v in CLASS_OF.items()}
PFX = {'Point': 'Point', 'Line': 'Line', 'QuadraticBezier': 'Quad', 'CubicBezier': 'Cubic',
       'AffineTransformation': 'Affine', 'BoundingBox': 'BBox', 'CurveFit': 'CurveFit', 'BezierPath': 'Path',
       'Node': 'Node', 'SegmentRepresentation': 'SegRep', 'MinimumCurveDistanceFinder': 'curvedistance'}
FILE_OF = {'Point': 'Point', 'Line': 'Line', 'QuadraticBezier': 'Quad', 'CubicBezier': 'Cubic',
           'AffineTransformation': 'Affine', 'BoundingBox': 'BBox', 'utils': 'Utils', 'curvedistance': 'CurveDist',
           'geometricshapes': 'Shapes', 'curvefitter': 'Fit', 'CurveFit': 'Fit', 'BezierPath': 'Sample',
           'Node': 'Nodelist', 'SegmentRepresentation': 'Nodelist', 'linesweep': 'Sweep',
           'MinimumCurveDistanceFinder': 'MinDist'}
FILE_ORDER = ['Utils', 'Point', 'Affine', 'BBox', 'Line', 'Quad', 'Cubic', 'Shapes', 'Fit', 'CurveDist', 'Sample', 'Nodelist', 'Sweep', 'Split',
              'CurveCurve', 'MinDist', 'Winding', 'PathOps', 'Clip', 'Lookup']
# leaves of the import graph: no other generated file imports them (so adding one leaves the text of the others unchanged)
LEAF_FILES = {'Shapes', 'Fit', 'Sample', 'Nodelist', 'Sweep', 'Split', 'CurveCurve', 'MinDist', 'Winding', 'PathOps', 'Clip', 'Lookup'}
# ... except for the ones named here (the types `outcome` / `pyexc` and the list helpers live in the prelude of Gen/Sample.v)
EXTRA_DEPS = {'Nodelist': ['Sample'], 'Sweep': ['Sample', 'Nodelist'], 'CurveCurve': ['Sample', 'Split'], 'MinDist': ['Sample'],
              'Winding': ['Sample', 'Nodelist', 'Split', 'CurveCurve'],
              'PathOps': ['Sample', 'Nodelist', 'Split', 'CurveCurve', 'MinDist'],
              # round 6: the fitter uses `outcome` (Sample), py_index_Z / the slices by a Z (Nodelist), range_Z / fold_option_outcome (MinDist)
              'Fit': ['Sample', 'Nodelist', 'MinDist'],
              'Clip': ['Sample', 'Nodelist', 'Split', 'CurveCurve', 'MinDist', 'Winding', 'PathOps'],
              'Lookup': ['Sample']}      # round 7
# methods emitted into another file than the one of the receiver's class (keyed by the DEFINING class)
FILE_OF_DEFCLASS = {'SampleMixin': 'Sample', 'BooleanOperationsMixin': 'PathOps'}
# ... or keyed by the method name (the flatteners call the sampling methods, so they live with them)
FILE_OF_METHOD = {'flatten': 'Sample', 'splitAtPoints': 'Split', 'addExtremes': 'Split',
                  '_curve_curve_intersections_t': 'CurveCurve', '_curve_curve_intersections': 'CurveCurve', 'intersections': 'CurveCurve',
                  'curveDistance': 'MinDist', 'windingNumberOfPoint': 'Winding', 'pointIsInside': 'Winding', 'addMargin': 'Winding'}
# ... or by the class and the name (BezierPath.bounds; Segment.bounds stays with its class)
FILE_OF_CLASS_METHOD = {('BezierPath', 'bounds'): 'Winding',
                        # round 5: the path-level drivers
                        ('BezierPath', 'flatten'): 'PathOps', ('BezierPath', 'distanceToPath'): 'PathOps', ('BezierPath', 'signed_area'): 'PathOps',
                        ('BezierPath', 'area'): 'PathOps', ('BezierPath', 'direction'): 'PathOps',
                        ('BezierPath', 'fromPoints'): 'Fit',      # round 6: the fitter's entry point on a path
                        ('BezierPath', 'clip'): 'Clip', ('BezierPath', 'union'): 'Clip', ('BezierPath', 'intersection'): 'Clip', ('BezierPath', 'difference'): 'Clip',
                        ('CubicBezier', 'tOfPoint'): 'Lookup'}      # round 7: it calls regularSampleTValue (Gen/Sample.v)
# modules whose module-level constants are emitted as named definitions (elsewhere they are inlined at the use)
NAMED_GLOBAL_MODULES = {'path/geometricshapes.py'}
MODULE_OF_CLASS = {'Point': 'point.py', 'Line': 'line.py', 'QuadraticBezier': 'quadraticbezier.py',
                   'CubicBezier': 'cubicbezier.py', 'Segment': 'segment.py',
                   'AffineTransformation': 'affinetransformation.py', 'BoundingBox': 'boundingbox.py',
                   'ArcLengthMixin': 'utils/arclengthmixin.py', 'IntersectionsMixin': 'utils/intersectionsmixin.py',
                   'SampleMixin': 'utils/samplemixin.py', 'CurveFit': 'utils/curvefitter.py', 'BezierPath': 'path/__init__.py',
                   'Node': 'path/representations/Nodelist.py', 'SegmentRepresentation': 'path/representations/Segment.py',
                   'MinimumCurveDistanceFinder': 'utils/curvedistance.py', 'BooleanOperationsMixin': 'utils/booleanoperationsmixin.py'}
# (round 5: of BooleanOperationsMixin only getSelfIntersections is modelled; everything that touches pyclipper is Untranslatable)
MRO = {'BezierPath': ['BezierPath', 'BooleanOperationsMixin', 'SampleMixin'],
       'Node': ['Node'], 'SegmentRepresentation': ['SegmentRepresentation'], 'MinimumCurveDistanceFinder': ['MinimumCurveDistanceFinder'],
       'Point': ['Point'], 'AffineTransformation': ['AffineTransformation'], 'BoundingBox': ['BoundingBox'], 'CurveFit': ['CurveFit'],
       'Line': ['Line', 'Segment', 'IntersectionsMixin', 'SampleMixin'],
       'QuadraticBezier': ['QuadraticBezier', 'ArcLengthMixin', 'Segment', 'IntersectionsMixin', 'SampleMixin'],
       'CubicBezier': ['CubicBezier', 'ArcLengthMixin', 'Segment', 'IntersectionsMixin', 'SampleMixin']}


# ---- round 3: node lists (path/representations) -------------------------------------------------------------------------------
# The three node types the library itself produces.  A Python string is a translation-time constant; it becomes a runtime
# value only as one of these three literals (type 'NT', the three-constructor `nodetype`); any other string met where a
# runtime value is needed, or compared with a node type, is Untranslatable.
NODE_TYPES = {'line': 'Nt_line', 'curve': 'Nt_curve', 'offcurve': 'Nt_offcurve'}
# classes modelled as Coq records (declared in the prelude of their file): type tag -> (class, constructor, [(attribute, type, projection)]).
# An instance is built by running the class's own __init__ on an object whose attributes are all unset ('UOBJ'): when it ends
# every declared attribute must have been assigned a value of the declared type, and nothing else.
# 'PCLOSED' is a BezierPath of which only the attribute `closed` is ever read: a bool.
# 'Z' is a Python int computed at run time (an index): a Coq Z, exact for every carrier.
RECORDS = {'NODE': ('Node', 'GNode', [('point', 'P', 'n_point'), ('type', 'NT', 'n_type')]),
           'SREP': ('SegmentRepresentation', 'MkSegRep', [('path', 'PCLOSED', 'sr_path'), ('segments', ('L', 'SEG'), 'sr_segments')])}
RECORD_OF_CLASS = {v[0]: k for k, v in RECORDS.items()}
# ---- round 3: splitAtPoints (path/__init__.py) -----------------------------------------------------------------------------------
# ('DICT', k, v): a dict, as the association list of its items in first-insertion order (the order CPython iterates in).  A key
# is looked up by the key equality KEYEQ[k] applied to (stored key, looked-up key); for segments it is `segment_keyeq O`: same
# class and numerically equal coordinates.  (CPython: equal hashes and then identity or ==.  hash(Segment) is the hash of the
# tuple of its points, which agree for numerically equal coordinates, and Segment.__eq__ holds for them; keys that agree in
# hash but not numerically -- a 64-bit collision -- and NaN coordinates are outside the model, as in Hand/Split.v.)
# Only these uses of a dict are translated (anything else is Untranslatable):
#   d = {}                                        the empty association list
#   k in d, k not in d                            dict_mem
#   d[k] = v                                      dict_set: the first item whose key matches gets the value, else (k, v) is added at the end
#   if k not in d: d[k] = []                      } the pair of statements: dict_append -- x goes to the list of the first matching
#   d[k].append(x)                                }   item, or a new item (k, [x]) is added (the item Python finds by identity)
#   for k in d: d[k] = f(d[k])                    every value replaced by f of it, in place (each item found by identity)
#   if k in d: x = d[k]; ...                      match dict_get d k with Some x => .. | None => <else> end.  x ALIASES the stored
#       list: the body may update x in place (x.pop(0), x[i] = e) and must not mention d; when it ends the model stores x back
#       under the key as it was when x was read (d[k0] = x), and x must not be used afterwards
KEYEQ = {'SEG': '(segment_keyeq O)', 'STR': 'keq',      # round 4: 'STR', the strings an abstract format parameter produces;
         'P': '(point_keyeq O)',                          # Points: equal hashes (equal coordinates) and Point.__eq__, see dict_key_P
         # round 6: a pair of Points (hash of the tuple: equal when the items' hashes are; == of the tuple: item by item)
         ('T', ('P', 'P')): '(pair_keyeq (point_keyeq O) (point_keyeq O))'}
# ---- round 3: the sweep (utils/linesweep.py) ------------------------------------------------------------------------------------
# ('DQ', t): a collections.deque of t, a Coq list (append at the right end, popleft at the left one).
# 'SHAPE': an element of the collections handed to bbox_intersections, `shape T := (nat * bbox T)`: an object of which the sweep
#   uses two things only -- its identity (o != o2 between two shapes is `negb (Nat.eqb ..)` of the tags: distinct objects compare
#   unequal, an object equals itself; value-equal distinct Segments are outside the model, as in Hand/Sweep.v) and .bounds().
# ('FUN', argtypes, ret): a parameter that is a function, only ever called.
# ('FN', names) / ('RF', names): a run-time value that is one of the local functions / a reference to one of the local deques
#   ("cells") of the function being translated -- with two candidates a bool, true = the first in order of definition.
#   The static forms are the constants ('localfun', f) and ('cellref', c).

# ---- round 4: the recursive drivers (utils/intersectionsmixin.py, utils/curvedistance.py) ---------------------------------------------
# ('RNG', t), t in seg3 / seg4: a curved segment together with its `_range` attribute (a list of exactly two numbers), the record
#   `ranged (segN T) T` of the prelude of Gen/CurveCurve.v.  A local variable becomes one by `x._range = [lo, hi]` on a segment
#   that splitAtTime has just created (range_assign); a segment as its constructor made it has the range its __init__ sets
#   (whole_range).  Everything but `._range` is delegated to the segment.
# 'STR': the result of `"%.<d>f" % x`: a value of the abstract type K, produced by the parameter fmt_<d>f and compared by keq.
# ('IT', t): the lazy iterator `filter(..)` returns, as the list of the items it will produce; it may only be consumed once, at
#   the place where the call that returns it stands (the argument of .extend, the iterable of a comprehension / for).
# 'KF' in a signature: a float argument whose value is known at translation time (the definition is specialised on it; the
#   value of the parameter's default leaves no trace in the name).
# self-recursive methods: key -> (declared type of the value returned, formats of the abstract parameters it takes).  The
# definition is a Fixpoint on `fuel` -- here the number of nested calls still allowed: None = it ran out (CPython: RecursionError,
# at a depth that is not modelled) -- so 'fuel' must be among its declared effects.  A recursive call passes the predecessor.
_TT = ('T', ('S', 'S'))
RECURSIVE = {('QuadraticBezier', '_curve_curve_intersections_t'): {'ret': ('IT', _TT), 'formats': ['%.2f']},
             ('CubicBezier', '_curve_curve_intersections_t'): {'ret': ('IT', _TT), 'formats': ['%.2f']}}
# An object with mutable attributes whose methods are translated in state-passing style: a value of type ('OBJ', cls, abs).
#   'state':  the mutable attributes and their types; the Coq value is the tuple of them (for the finder: `(option T * Z)`,
#             self.bestAlpha and self.iterations).  Assignments `self.a = e` give a new value of the object.
#   'abstract': what else the methods read of the object, as PARAMETERS of the definitions generated for them (`abs`, the third
#             component of the type, is the tuple of the Coq texts passed for them: the definition's own parameters inside it,
#             the instances built from the constructor's arguments at `MinimumCurveDistanceFinder(bez1, bez2)`):
#               ('len', attr, name)            len(self.<attr>), a run-time int
#               ('method', m, name, argtypes, result)   self.<m>(..): a function; a result ('X', t) may raise (`outcome`)
#             S and D themselves are generated per pair of classes in Gen/CurveDist.v (memo caches stripped); D is tabulated over the
#             indices minDist reads and FAILS (Raises PyIndexError: never a guess) outside the table, as Dtab of Hand/MinDist.v.
#   'ignored': attributes only the abstracted methods use (the memo caches); the constructor must set them to {}.
OBJECTS = {'MinimumCurveDistanceFinder': {
    'state': [('bestAlpha', ('O', 'S')), ('iterations', 'Z')],
    'abstract': [('len', 'bez1', 'v_len1'), ('len', 'bez2', 'v_len2'),
                 ('method', 'S', 'S_', ('S', 'S'), 'S'), ('method', 'D', 'D_', ('Z', 'Z'), ('X', 'S'))],
    'ignored': ['dCache', 'sCache']}}
# methods that update the attributes of their receiver AND return a value: the result is the pair (value, new state); a call is
# only translated as the right-hand side of an assignment (the receiver, a local variable, is rebound to the new state)
STATEFUL = {('MinimumCurveDistanceFinder', 'minDist')}
RECURSIVE[('MinimumCurveDistanceFinder', 'minDist')] = {'ret': ('T', ('S', 'S', 'S')), 'formats': []}
# round 6: 'depth': the Fixpoint is on a budget of its own, `depth` (EFFECTS must declare 'depth'), and `fuel` -- when the function also
# declares 'fuel' -- stays the number of iterations every loop invocation of its callees may use; a recursive call passes `fuel depth_`
RECURSIVE[('CurveFit', '_fitCurve')] = {'ret': ('O', ('L', 'seg4')), 'formats': [], 'depth': True}
# 'IXS': an Intersection object together with its attribute seg1, `(segment T * (T * pt T * T))`.  The earlier rounds' 'IX' drops the
# two segments (nothing read them).  windingNumberOfPoint reads `i.seg1`: while it is translated (IXS_ROOTS) the functions that build
# Intersections (IXS_FUNCTIONS) are translated once more, into Gen/Winding.v under the suffix _ixs, with Intersection(..) as an 'IXS'.
# round 5: getSelfIntersections hands the Intersection objects themselves to its caller: they keep both segments ('IXSS'); the functions
# that build them are translated a third time, into Gen/PathOps.v under the suffix _ixss (the curve-curve ones too: these carry effects).
IXS_ROOTS = {('BezierPath', 'windingNumberOfPoint'): 'ixs', ('BezierPath', 'getSelfIntersections'): 'ixss',
             ('BezierPath', 'clip'): 'ixss'}      # round 6: clip reads i.seg1, i.seg2
IXS_FUNCTIONS = {'ixs': {'intersections', '_curve_line_intersections', '_line_line_intersections'},
                 'ixss': {'intersections', '_curve_line_intersections', '_line_line_intersections', '_curve_curve_intersections'}}
IXS_FILE = {'ixs': 'Winding', 'ixss': 'PathOps'}
# functions in which an `if` whose branches consume fuel / may raise, followed by more code, is joined through the outcome of
# the branches (`match (if c then .. else ..) with Some (Returns <the variables they assign>) => <the rest> ..`) instead of
# continuing each branch by a copy of the rest (what the earlier rounds do; their text must not change)
JOIN_EFFECTS = {('QuadraticBezier', '_curve_curve_intersections_t'), ('CubicBezier', '_curve_curve_intersections_t'),
                ('MinimumCurveDistanceFinder', 'minDist'),
                ('BezierPath', 'distanceToPath')}     # (round 5: for the tuple assigned in a joined branch, `closestPair = (s1, s2)`, to keep its structure; see bind)


# ---- round 5: the path-level drivers (path/__init__.py, utils/booleanoperationsmixin.py) ---------------------------------------------------
# 'TSEG': a segment together with its `_orig` attribute, `(segment T * option (segment T))` (as 'EDGE' for a Line: Some c when
#   `x._orig = c` has been executed on the object, None when it has no such attribute).  Only a Line's tag is ever looked at (Line.flatten
#   returns the receiver itself, tag included); attributes and pure methods are the segment's.
# ('PATHC', t): a BezierPath of which the attribute `closed` matters too: the pair (the list asSegments() returns, closed), t the type of
#   the segments ('TSEG' for the receiver of flatten, 'EDGE' for the path flatten builds).  A value built in the function itself
#   (BezierPath.fromSegments(l), then `p.closed = e`) is kept as its two components (Val.items).
# 'IXSS': an Intersection object with both its segments, `(segment T * segment T * (T * pt T * T))` (seg1, seg2, (t1, point, t2)); see IXS_ROOTS.
# ('U', t): a local variable that is first assigned inside a loop and read after it: None while it is unbound.  Reading it (and
#   nothing else) unwraps it: `Raises PyUnboundLocalError` on None (FunTx.read_unbound).
# ---- round 6: the curve fitter (utils/curvefitter.py) and the Boolean-operation glue (utils/booleanoperationsmixin.py) ----------------------
_FITTER = ('fitCurve', 'fitLine', '_leftTangent', '_rightTangent', 'centerTangent', 'leftTangent', 'rightTangent', 'generateBezier',
           'estimateLengths', 'newtonRaphsonFind', 'reparameterize', 'computeMaxError', '_fitCurve')
# CHECKED: functions translated with checked arithmetic.  Python raises ZeroDivisionError on `a / d` with d == 0 (float or int) and
#   ValueError on math.sqrt(x) with x < 0; elsewhere in Gen both are total (dvd, sqrt_).  In these functions `a / d` is the total dvd only
#   when d is a non-zero literal, or a local variable bound exactly once and the division stands in the true branch of an enclosing
#   `if d != 0[.0]` / `if d > 0.0` / `if 0.0 < d` (guarded_divisor); any other division first tests `eqb O d (ofZ O 0)`.  math.sqrt(x) is
#   the total sqrt_ only when x is a local variable that is a running maximum of non-negative values (nonneg_running_max); any other
#   first tests `ltb O x (ofZ O 0)`.  (Calls into the earlier definitions -- Point.distanceFrom, toUnitVector, .. -- keep their total reading.)
CHECKED = {('CurveFit', n) for n in _FITTER}
# ZD_VARIANTS: earlier definitions that divide unguarded; called from a CHECKED function they are translated once more, checked, under
#   the suffix _zd (the plain definitions of rounds 1-5 keep their text and their bridges)
ZD_VARIANTS = {('CurveFit', 'computeHook'), ('CurveFit', 'chordLengthParameterize')}
# ZINT: functions in which every Python int is a Z: len(l) meets ints as `Z.of_nat (length l)`, a loop variable initialised with an int
#   literal is a Z (a float once the body assigns it one), range() of ints is range_Z
ZINT = {('CurveFit', n) for n in _FITTER} | {('BezierPath', 'fromPoints')} | {('BezierPath', n) for n in ('clip', 'union', 'intersection', 'difference')}
# RET_DECL: the declared result type of a function with effects that may return None (checked against every `return`); for the
#   self-recursive ones it is RECURSIVE[..]['ret']
RET_DECL = {('CurveFit', 'fitCurve'): ('O', ('L', 'seg4'))}
# JOIN_EARLY: functions in which an `if` that neither always returns nor never returns, followed by more code, is translated as
#       match (if c then A else B) with .. | Some (Returns (inl r)) => Some (Returns r) | Some (Returns (inr <assigned variables>)) => <the rest> end
#   (A, B end in `inl <the value returned>` where they return and in `inr (..)` where they fall through) instead of continuing each
#   branch by a copy of the rest
JOIN_EARLY = {('CurveFit', '_fitCurve')}
# the Boolean-operation glue.  `pyclipper` is an ABSTRACT PARAMETER of the generated definitions, exactly as in Hand/Clip.v:
#     toZ     : T -> option Z                         pyclipper's int() conversion of a coordinate (None: it raises)
#     clipper : clip_type -> list (list (Z * Z)) -> list (list (Z * Z)) -> option (list (list (Z * Z)))
#                                                     Execute(cliptype, PFT_EVENODD, PFT_EVENODD) on (subject paths, clip paths) (None: ClipperException)
# Only these uses of the module are translated (anything else is Untranslatable): `pc = pyclipper.Pyclipper()` (a local variable, bound once);
# `pc.AddPath(<list of coordinate pairs>, pyclipper.PT_CLIP | pyclipper.PT_SUBJECT, True)` as a statement; `pc.Execute(<cliptype>,
# pyclipper.PFT_EVENODD, pyclipper.PFT_EVENODD)`; the constants pyclipper.CT_INTERSECTION / CT_UNION / CT_DIFFERENCE / CT_XOR ('CT': clip_type).
# ('PC', subject paths, clip paths): the Pyclipper object, known by the paths added so far (translation-time structure).  The coordinates
# are converted (toZ, `Raises PyConvertError`) where Execute runs -- subject paths first, as Hand/Clip.v does -- and a None of clipper is
# `Raises PyClipperError` (the two constructors added to `pyexc`).
CLIP_FUNS = {('BezierPath', n) for n in ('clip', 'union', 'intersection', 'difference')}
PYCLIPPER_CT = {'CT_INTERSECTION': 'Ct_intersection', 'CT_UNION': 'Ct_union', 'CT_DIFFERENCE': 'Ct_difference', 'CT_XOR': 'Ct_xor'}
ROUND6 = CHECKED | CLIP_FUNS      # functions in which the idioms of this round are recognised
# ---- round 7: the sampled lookup CubicBezier.tOfPoint (Gen/Lookup.v) ------------------------------------------------------------------------
# 'XS': a local float variable initialised with float("inf") -- `Ops` has no infinity (the carrier R has none) -- as `option T`, None = +infinity,
#   Some x = the float x.  The ONLY operation translated on such a value is standing on the greater side of a strict comparison, `e < it` /
#   `it > e` (ltb_xinf of the prelude of Gen/Lookup.v: for None, "e < +infinity", i.e. e is neither NaN nor +infinity), and being replaced by
#   a float (`it = e`: Some e); with these the representation is equivalent to the float (Some +infinity and None behave alike).  Any other
#   use -- arithmetic, another comparison, passing it on, returning it -- is Untranslatable.
ROUND7 = {('CubicBezier', 'tOfPoint')}
# the element type of a list that starts as `[]` and is filled in a loop, where the inference from the first `.append(<e>)` does not reach
# (e depends on variables bound in the loop body): DECLARED here; Coq checks the claim when the definition is compiled
ACC_TYPES = {(('BezierPath', 'clip'), 'newpath'): ('L', 'SEG')}
def mentions_xs(t): return t == 'XS' or (isinstance(t, tuple) and any(mentions_xs(x) for x in t))
def obj_type(cls, abs_texts): return ('OBJ', cls, tuple(abs_texts))
def obj_state_type(cls): return ('T', tuple(t for _, t in OBJECTS[cls]['state'])) if len(OBJECTS[cls]['state']) > 1 else OBJECTS[cls]['state'][0][1]
def abs_coqty(a):
    if a[0] == 'len': return 'Z'
    return '(' + ' -> '.join([coqty(t) for t in a[3]] + [coqty(a[4])]) + ')'


def tmatch(a, b):
    """type equality up to the wildcard '?' (element type of an empty literal list); returns the more specific type or None"""
    if a == b: return a
    if a == '?': return b
    if b == '?': return a
    if isinstance(a, tuple) and isinstance(b, tuple) and a[0] == b[0]:
        if a[0] in ('L', 'O', 'F', 'X', 'DQ', 'IT', 'U', 'PATHC'):
            m = tmatch(a[1], b[1])
            return (a[0], m) if m is not None else None
        if a[0] == 'T' and len(a[1]) == len(b[1]):
            ms = [tmatch(x, y) for x, y in zip(a[1], b[1])]
            return ('T', tuple(ms)) if all(m is not None for m in ms) else None
        if a[0] == 'DICT':
            k, v = tmatch(a[1], b[1]), tmatch(a[2], b[2])
            return ('DICT', k, v) if k is not None and v is not None else None
    return None


def coqty(t):
    if t == '?': return '_'
    if t == 'S': return 'T'
    if t == 'B': return 'bool'
    if t == 'P': return 'pt T'
    if t in SEGN: return f'{t} T'
    if t == 'M': return 'mat3 T'
    if t == 'BB': return 'bbox T'
    if t == 'SEG': return 'segment T'
    if t == 'EDGE': return '(seg2 T * option (segment T))%type'
    if t == 'PATH': return 'list (segment T)'
    if t == 'IX': return '(T * pt T * T)%type'
    if t == 'IXS': return '(segment T * (T * pt T * T))%type'
    if t == 'IXSS': return '(segment T * segment T * (T * pt T * T))%type'      # round 5
    if t == 'TSEG': return '(segment T * option (segment T))%type'
    if t == 'NT': return 'nodetype'
    if t == 'NODE': return 'gnode T'
    if t == 'SREP': return 'segrep T'
    if t == 'PCLOSED': return 'bool'
    if t == 'Z': return 'Z'
    if t == 'SHAPE': return 'shape T'
    if t == 'UNIT': return 'unit'
    if t == 'STR': return 'K'
    if t == 'CT': return 'clip_type'      # round 6
    if t == 'XS': return 'option (T)'     # round 7: a float that started as float("inf"): None = +infinity (see ROUND7)
    if isinstance(t, tuple):
        if t[0] == 'RNG' and t[1] in ('seg3', 'seg4'): return f'ranged ({coqty(t[1])}) T'
        if t[0] == 'OBJ': return coqty(obj_state_type(t[1]))
        if t[0] in ('L', 'DQ', 'IT'): return f'list ({coqty(t[1])})'
        if t[0] in ('FN', 'RF'):
            if len(t[1]) != 2: raise Untranslatable(f'a reference among {len(t[1])} candidates {t[1]!r} (only two are modelled, as a bool)')
            return 'bool'
        if t[0] == 'DICT': return f'list (({coqty(t[1])} * {coqty(t[2])})%type)'
        if t[0] == 'FUN': return '(' + ' -> '.join([coqty(x) for x in t[1]] + [coqty(t[2])]) + ')'
        if t[0] == 'O': return f'option ({coqty(t[1])})'
        if t[0] == 'U': return f'option ({coqty(t[1])})'       # round 5: a local variable that may still be unbound (None)
        if t[0] == 'PATHC': return f'(list ({coqty(t[1])}) * bool)%type'
        if t[0] == 'F': return f'option ({coqty(t[1])})'       # fuelled: None = the fuel ran out
        if t[0] == 'X': return f'outcome ({coqty(t[1])})'      # may raise: Returns v | Raises e
        if t[0] == 'T': return '(' + ' * '.join(coqty(x) for x in t[1]) + ')%type'
    raise Untranslatable(f'no Coq type for {t!r}')


_mods = {}


def module(path):
    if path not in _mods:
        src = open(os.path.join(SRC, path)).read()
        _mods[path] = (src, ast.parse(src))
    return _mods[path]


def find_def(cls, name):
    """(module path, FunctionDef, defining class) following the MRO; cls None -> module-level in utils/__init__"""
    for k in MRO[cls]:
        src, tree = module(MODULE_OF_CLASS[k])
        for n in tree.body:
            if isinstance(n, ast.ClassDef) and n.name == k:
                for m in n.body:
                    if isinstance(m, ast.FunctionDef) and m.name == name:
                        return MODULE_OF_CLASS[k], m, k
    raise KeyError((cls, name))


def find_modfun(path, name):
    src, tree = module(path)
    for n in tree.body:
        if isinstance(n, ast.FunctionDef) and n.name == name:
            return n
    raise KeyError((path, name))


def modkey_of(path):
    return os.path.basename(os.path.dirname(path)) if path.endswith('__init__.py') else os.path.basename(path)[:-3]


def imports_name(path, name, frm):
    """does module `path` contain `from <frm> import <name>` (unaliased) at top level?"""
    src, tree = module(path)
    for n in tree.body:
        if isinstance(n, ast.ImportFrom) and n.module == frm:
            for a in n.names:
                if a.name == name and a.asname is None: return True
    return False


def decorators(fd):
    out = set()
    for d in fd.decorator_list:
        if isinstance(d, ast.Name): out.add(d.id)
    return out


def fingerprint(node):
    return hashlib.sha256(ast.dump(node, include_attributes=False).encode()).hexdigest()[:16]


# mutators: methods whose effect is an assignment to self; translated as functions returning the new self
MUTATORS = {('AffineTransformation', n) for n in
            ('apply', 'apply_backwards', 'translate', 'scale', 'reflect', 'rotate', 'invert')} | \
           {('Point', 'rotate'), ('Point', 'transform')} | {('BoundingBox', 'extend')} | \
           {(c, 'round') for c in ('Line', 'QuadraticBezier', 'CubicBezier')} | {('SegmentRepresentation', 'appendSegment')} | \
           {('BezierPath', 'splitAtPoints')} | {('BoundingBox', 'addMargin')}
# mutators whose receiver may be a BoundingBox with unset corners.  `BoundingBox()` sets bl = tr = None; the receiver is an
# `option (bbox T)`, None standing for "both corners None".  A state with exactly one corner set has no representation: a body
# that ends in (or joins on) such a state is Untranslatable.
OPT_SELF = {('BoundingBox', 'extend')}
# 'A' in a signature: the definition is specialised on the (translation-time) class of that argument, one of these
ARG_CLASSES = {('BoundingBox', 'extend'): ('P', 'BB')}
for _c in ('QuadraticBezier', 'CubicBezier'):      # round 4: the other curve, with its `_range`
    ARG_CLASSES[(_c, '_curve_curve_intersections_t')] = (('RNG', 'seg3'), ('RNG', 'seg4'))
    ARG_CLASSES[(_c, '_curve_curve_intersections')] = ('seg3', 'seg4')
for _c in ('Line', 'QuadraticBezier', 'CubicBezier'):
    ARG_CLASSES[(_c, 'intersections')] = ('seg2', 'seg3', 'seg4')
    ARG_CLASSES[(_c, '__eq__')] = ('seg2', 'seg3', 'seg4')      # round 6: Segment.__eq__, specialised on the class of the other segment
ARG_CLASSES[('mod:utils/curvedistance.py', 'curveDistance')] = ('seg2', 'seg3', 'seg4')
UNSET_BOX = {'bl': None, 'tr': None}
# methods that return None and update one of their ARGUMENTS in place: translated as functions returning the new value of it
MUTATED_PARAM = {('CurveFit', 'estimateBi'): 'bez', ('mod:utils/linesweep.py', 'dequefilter'): 'deck',
                 ('CurveFit', 'reparameterize'): 'params'}      # round 6 (with effects: the new value of the parameter is the result)

# signature table: argument types of methods (self excluded).  Return types are inferred.
SIG = {
    ('Point', '__mul__'): ['S'], ('Point', '__truediv__'): ['S'], ('Point', '__add__'): ['P'], ('Point', '__sub__'): ['P'],
    ('Point', '__eq__'): ['P'],
    ('Point', 'dot'): ['P'], ('Point', 'lerp'): ['P', 'S'], ('Point', 'rotated'): ['P', 'S'], ('Point', 'rotate'): ['P', 'S'],
    ('Point', 'fromAngle'): ['S'], ('Point', 'squareDistanceFrom'): ['P'], ('Point', 'distanceFrom'): ['P'],
    ('Point', 'transformed'): ['M'], ('Point', 'transform'): ['M'],
    ('AffineTransformation', 'apply'): ['M'], ('AffineTransformation', 'apply_backwards'): ['M'],
    ('AffineTransformation', 'translation'): ['P'], ('AffineTransformation', 'translate'): ['P'],
    ('AffineTransformation', 'scaling'): ['S', ('O', 'S')], ('AffineTransformation', 'scale'): ['S', ('O', 'S')],
    ('AffineTransformation', 'rotation'): ['S'], ('AffineTransformation', 'rotate'): ['S'],
    ('BoundingBox', 'includes'): ['P'], ('BoundingBox', 'overlaps'): ['BB'], ('BoundingBox', 'translated'): ['P'],
    ('BoundingBox', 'addMargin'): ['S'], ('BoundingBox', 'extend'): ['A'],
    ('*seg', 'pointAtTime'): ['S'], ('*seg', 'splitAtTime'): ['S'], ('*seg', 'tangentAtTime'): ['S'],
    ('*seg', 'normalAtTime'): ['S'], ('*seg', 'curvatureAtTime'): ['S'], ('*seg', 'lengthAtTime'): ['S'],
    ('*seg', 'translated'): ['P'], ('*seg', 'rotated'): ['P', 'S'], ('*seg', 'scaled'): ['S'], ('*seg', 'transformed'): ['M'],
    ('*seg', 'tOfPoint'): ['P', 'B'], ('*seg', '_findRoots'): ['K'],
    ('*seg', '_bothPointsAreOnSameSideOfOrigin'): ['P', 'P', 'P'],
    ('*seg', '_line_line_intersections'): ['seg2'], ('*seg', '_curve_line_intersections_t'): ['seg2'],
    ('*seg', '_curve_line_intersections'): ['seg2'],
    ('*seg', 'findExtremes'): ['K'],
    ('CurveFit', 'computeHook'): ['P', 'P', 'S', 'seg4', 'S'],
    ('CurveFit', 'estimateBi'): ['seg4', ('L', 'P'), ('L', 'S')],
    ('CurveFit', 'chordLengthParameterize'): [('L', 'P')],
    ('*seg', 'sample'): ['S'], ('*seg', 'regularSampleTValue'): ['S'], ('*seg', 'regularSample'): ['S'],
    ('BezierPath', 'pointAtTime'): ['S'], ('BezierPath', 'lengthAtTime'): ['S'],
    ('*seg', 'flatten'): ['S'],
    ('BezierPath', 'sample'): ['S'], ('BezierPath', 'regularSampleTValue'): ['S'], ('BezierPath', 'regularSample'): ['S'],
    # path/representations/Segment.py: `seg` is the list of coordinate pairs fromNodelist accumulates
    ('SegmentRepresentation', 'appendSegment'): [('L', ('T', ('S', 'S')))],
    ('SegmentRepresentation', 'fromNodelist'): ['PCLOSED', ('L', 'NODE')],
    # path/__init__.py: the split list pairs a segment (a dict key, looked up by value) with a time
    ('BezierPath', 'splitAtPoints'): [('L', ('T', ('SEG', 'S')))],
    # round 4 -- utils/intersectionsmixin.py: specialised on the class of the other segment; `precision` is a translation-time float
    ('*seg', '_curve_curve_intersections_t'): ['A', 'KF'], ('*seg', '_curve_curve_intersections'): ['A'],
    ('*seg', 'intersections'): ['A', 'B'],
    # round 4 -- utils/curvedistance.py: the two parameter intervals are pairs
    ('MinimumCurveDistanceFinder', 'minDist'): [('T', ('S', 'S')), ('T', ('S', 'S')), 'S'],
    # round 4 -- path/__init__.py
    ('BezierPath', 'windingNumberOfPoint'): ['P'], ('BezierPath', 'pointIsInside'): ['P'],
    # round 5 -- path/__init__.py: the other path as the list of its segments; `samples` a number
    ('BezierPath', 'flatten'): ['S'], ('BezierPath', 'distanceToPath'): ['PATH', 'S'],
    # round 6 -- utils/curvefitter.py: tangents are Optional Points (None / a Point, told apart by truthiness and `is None`), budgets and indices ints
    ('Point', '__matmul__'): ['P'],
    ('CurveFit', 'fitCurve'): [('L', 'P'), 'S', 'S', 'Z'], ('CurveFit', 'fitLine'): [('L', 'P'), ('O', 'P'), ('O', 'P')],
    ('CurveFit', '_leftTangent'): [('L', 'P')], ('CurveFit', '_rightTangent'): [('L', 'P')], ('CurveFit', 'centerTangent'): [('L', 'P'), 'Z'],
    ('CurveFit', 'leftTangent'): [('L', 'P'), 'S'], ('CurveFit', 'rightTangent'): [('L', 'P'), 'S'],
    ('CurveFit', 'generateBezier'): [('L', 'P'), ('L', 'S'), ('O', 'P'), ('O', 'P'), 'S'],
    ('CurveFit', 'estimateLengths'): [('L', 'P'), ('L', 'S'), 'P', 'P'],
    ('CurveFit', 'newtonRaphsonFind'): ['seg4', 'P', 'S'], ('CurveFit', 'reparameterize'): ['seg4', ('L', 'P'), ('L', 'S')],
    ('CurveFit', 'computeMaxError'): ['seg4', ('L', 'P'), ('L', 'S'), 'S', 'S'],
    ('CurveFit', '_fitCurve'): [('L', 'P'), ('O', 'P'), ('O', 'P'), 'S', 'S', 'Z'],
    ('BezierPath', 'fromPoints'): [('L', 'P'), 'S', 'S', 'Z'],
    # round 6 -- utils/booleanoperationsmixin.py: the other path as the list of its segments, the operation, the flag `flat`
    ('BezierPath', 'clip'): ['PATH', 'CT', 'B'], ('BezierPath', 'union'): ['PATH', 'B'], ('BezierPath', 'intersection'): ['PATH', 'B'],
    ('BezierPath', 'difference'): ['PATH', 'B'],
    ('*seg', '__eq__'): ['A'],
}
# effect table: what a function can do besides returning a value.  'fuel': it contains a data-dependent `while` loop (or calls
# such a function): the definition takes `fuel : nat` first -- the number of iterations every loop invocation may use -- and
# returns `option`, None = the fuel ran out.  'exc': it can raise one of the modelled exceptions (`pyexc`): it returns
# `outcome`.  Both: `option (outcome _)`.  Like the signature table this is declared and CHECKED: a loop or a raising
# operation in a function that does not declare it is Untranslatable, and so is a declared effect that never occurs.
EFFECTS = {
    ('*seg', 'sample'): {'fuel'}, ('*seg', 'regularSampleTValue'): {'fuel', 'exc'}, ('*seg', 'regularSample'): {'fuel', 'exc'},
    ('BezierPath', 'pointAtTime'): {'exc'}, ('BezierPath', 'lengthAtTime'): {'exc'},
    ('Line', 'flatten'): set(), ('QuadraticBezier', 'flatten'): {'fuel'}, ('CubicBezier', 'flatten'): {'fuel', 'exc'},
    # SampleMixin on a path: pointAtTime / lengthAtTime raise, inside the loops too
    ('BezierPath', 'sample'): {'fuel', 'exc'}, ('BezierPath', 'regularSampleTValue'): {'fuel', 'exc'}, ('BezierPath', 'regularSample'): {'fuel', 'exc'},
    # IndexError of self.segments[0] / nodelist[firstOncurve] on an empty list, ValueError("Unknown segment type")
    ('SegmentRepresentation', 'toNodelist'): {'exc'}, ('SegmentRepresentation', 'appendSegment'): {'exc'},
    ('SegmentRepresentation', 'fromNodelist'): {'exc'},
    # IndexError of deque.popleft() on an empty deque (Proofs/Bridge3.v: it never happens)
    ('mod:utils/linesweep.py', 'dequefilter'): {'exc'}, ('mod:utils/linesweep.py', 'bbox_intersections'): {'exc'},
    # the `while len(tList) > 0` loop (ZeroDivisionError of mapx is not modelled: `/` is the total dvd, as everywhere in Gen)
    ('BezierPath', 'splitAtPoints'): {'fuel'}, ('BezierPath', 'addExtremes'): {'fuel'},
    # round 4 -- the recursion of the curve-curve subdivision; AssertionError of `assert lo < hi`, a box with unset corners used as a box
    ('*seg', '_curve_curve_intersections_t'): {'fuel', 'exc'}, ('*seg', '_curve_curve_intersections'): {'fuel', 'exc'},
    # round 4 -- the four-way recursion of minDist; a failing D (outside its table), None / int when a loop range is empty
    ('MinimumCurveDistanceFinder', 'minDist'): {'fuel', 'exc'}, ('mod:utils/curvedistance.py', 'curveDistance'): {'fuel', 'exc'},
    # round 4 -- a BoundingBox whose corners are still None used as a box (an empty path: addMargin adds a Point to None)
    ('BezierPath', 'bounds'): {'exc'}, ('BezierPath', 'windingNumberOfPoint'): {'exc'}, ('BezierPath', 'pointIsInside'): {'exc'},
    # round 5 -- the per-class flatteners (fuel: the sampling loops; IndexError of rSamples[-1]); the curve-curve recursion and
    # AssertionError; the sampling loops, the recursion of minDist, ValueError of min([]), UnboundLocalError of closestPair
    ('BezierPath', 'flatten'): {'fuel', 'exc'}, ('BezierPath', 'getSelfIntersections'): {'fuel', 'exc'}, ('BezierPath', 'distanceToPath'): {'fuel', 'exc'},
    ('BezierPath', 'signed_area'): {'fuel', 'exc'}, ('BezierPath', 'area'): {'fuel', 'exc'}, ('BezierPath', 'direction'): {'fuel', 'exc'},
    # round 6 -- the fitter: IndexError of data[k], ZeroDivisionError / ValueError of the checked arithmetic (CHECKED), TypeError of None + list;
    # 'fuel': the `while True` loops of leftTangent / rightTangent / newtonRaphsonFind; 'depth': the recursion of _fitCurve
    ('CurveFit', 'fitLine'): {'exc'}, ('CurveFit', '_leftTangent'): {'exc'}, ('CurveFit', '_rightTangent'): {'exc'}, ('CurveFit', 'centerTangent'): {'exc'},
    ('CurveFit', 'leftTangent'): {'fuel', 'exc'}, ('CurveFit', 'rightTangent'): {'fuel', 'exc'}, ('CurveFit', 'estimateLengths'): {'exc'},
    ('CurveFit', 'generateBezier'): {'fuel', 'exc'}, ('CurveFit', 'newtonRaphsonFind'): {'fuel'}, ('CurveFit', 'reparameterize'): {'fuel', 'exc'},
    ('CurveFit', 'computeMaxError'): {'exc'}, ('CurveFit', '_fitCurve'): {'fuel', 'depth', 'exc'}, ('CurveFit', 'fitCurve'): {'fuel', 'depth', 'exc'},
    ('BezierPath', 'fromPoints'): {'fuel', 'depth', 'exc'},
    # round 6 -- the glue around pyclipper: the curve-curve recursion, the loops of splitAtPoints and of the flatteners; AssertionError, IndexError
    # of rSamples[-1] / p[0], the conversion of a coordinate, ClipperException
    ('BezierPath', 'clip'): {'fuel', 'exc'}, ('BezierPath', 'union'): {'fuel', 'exc'}, ('BezierPath', 'intersection'): {'fuel', 'exc'},
    ('BezierPath', 'difference'): {'fuel', 'exc'},
    # round 7 -- the sampling loops of regularSampleTValue and IndexError of its rSamples[-1]; the `while precision > 1e-5` refinement loop
    ('CubicBezier', 'tOfPoint'): {'fuel', 'exc'},
}
# 'EDGE': a Line together with its `_orig` attribute, `(seg2 T * option (segment T))`: Some c when `line._orig = c` has been
# executed on it, None for a Line that was never tagged (reading the attribute would be an AttributeError; nothing reads it).
# A local variable becomes an EDGE by the statement pair `x = Line(..); x._orig = <segment>` (the object is fresh and unshared).
# Receivers whose own `_orig` is part of the result come in as EDGE:
SELF_TY = {('Line', 'flatten'): 'EDGE',
           # round 4: the receiver's `_range` is read
           ('QuadraticBezier', '_curve_curve_intersections_t'): ('RNG', 'seg3'), ('CubicBezier', '_curve_curve_intersections_t'): ('RNG', 'seg4'),
           # round 5: the segments' `_orig` and the flag `closed` are part of the result
           ('BezierPath', 'flatten'): ('PATHC', 'TSEG'), ('BezierPath', 'signed_area'): ('PATHC', 'TSEG'), ('BezierPath', 'area'): ('PATHC', 'TSEG'),
           ('BezierPath', 'direction'): ('PATHC', 'TSEG')}


def effects_of(cls, name, consts=(), variant=None):
    if variant == 'zd': return frozenset(effects_of(cls, name, consts) | {'exc'})      # round 6: the checked variant may raise ZeroDivisionError
    if name == 'intersections' and cls in ('Line', 'QuadraticBezier', 'CubicBezier'):
        # round 4: the dispatch reaches the curve-curve recursion iff both operands are curves
        curved = cls != 'Line' and len(consts) == 1 and consts[0][0] == 'ty' and consts[0][1] in ('seg3', 'seg4')
        return frozenset({'fuel', 'exc'}) if curved else frozenset()
    if (cls, name) in EFFECTS: return frozenset(EFFECTS[(cls, name)])
    if cls in ('Line', 'QuadraticBezier', 'CubicBezier'): return frozenset(EFFECTS.get(('*seg', name), ()))
    return frozenset()


def mtype(eff, t):
    """the result type of a function with effects `eff` returning t"""
    if 'exc' in eff: t = ('X', t)
    if 'fuel' in eff or 'depth' in eff: t = ('F', t)
    return t


def is_mtype(t):
    """effects carried by a result type, or None for a plain type"""
    if isinstance(t, tuple) and t[0] == 'F':
        return ({'fuel', 'exc'}, t[1][1]) if isinstance(t[1], tuple) and t[1][0] == 'X' else ({'fuel'}, t[1])
    if isinstance(t, tuple) and t[0] == 'X': return ({'exc'}, t[1])
    return None
CLASSMETHODS = {('Point', 'fromAngle'), ('AffineTransformation', 'translation'), ('AffineTransformation', 'scaling'),
                ('AffineTransformation', 'reflection'), ('AffineTransformation', 'rotation'),
                ('CurveFit', 'computeHook'), ('CurveFit', 'estimateBi'), ('CurveFit', 'chordLengthParameterize'),
                ('SegmentRepresentation', 'fromNodelist')} | {('CurveFit', n) for n in _FITTER} | {('BezierPath', 'fromPoints')}      # round 6


def sig_of(cls, name, nargs):
    k = (cls, name)
    if k in SIG: return SIG[k]
    if cls in ('Line', 'QuadraticBezier', 'CubicBezier') and ('*seg', name) in SIG:
        s = SIG[('*seg', name)]
        if cls == 'QuadraticBezier' and name == 'tOfPoint': return ['P']
        if cls == 'CubicBezier' and name == 'tOfPoint': return ['P']
        if cls != 'CubicBezier' and name == 'findExtremes': return []
        return s
    if nargs == 0: return []
    raise Untranslatable(f'no signature for {cls}.{name}')


def prepare_closures(fd, path):
    """Local functions used as procedures (utils/linesweep.py).  Returns (fd', cells, local function names).

    When the body of fd defines local functions and CALLS them at statement level -- by name, or through a local variable that
    holds one of them -- the calls are expanded in the ast before translation:
      *  f(a1, .., an)          ->  f__p1 = a1; ..; f__pn = an; <body of f, its parameters and local variables renamed f__x>
      *  g(a1, .., an), g a local variable  ->  if g is f1: f1(a1, .., an) else: f2(a1, .., an)      (then expanded as above)
    so the body runs in the caller's scope at the time of the call: reads of the free variables of f see their current values
    and in-place updates of them persist, which is what a Python closure does (it captures variables, not values).  A closure
    cannot REBIND a variable of the enclosing function without `nonlocal` (rejected), so only in-place updates matter.
    "Cells" are the local variables bound once, at the top level of fd, to a fresh `deque([])`: the mutable objects that the
    closures and the instruction tuples refer to.  Every other way a cell name is used than the ones the translator gives
    reference semantics to (see cell_uses_ok) is rejected.  Anything not of this shape leaves fd untouched."""
    import copy
    funs = {st.name: st for st in fd.body if isinstance(st, ast.FunctionDef)}
    if not funs: return fd, [], []
    def own_nodes(x):
        # the nodes of x that belong to its own scope (not to a nested def / lambda)
        yield x
        for c in ast.iter_child_nodes(x):
            if isinstance(c, (ast.FunctionDef, ast.Lambda, ast.ClassDef)): continue
            yield from own_nodes(c)
    def bound_names(stmts):
        out = set()
        for st in stmts:
            for x in own_nodes(st):
                if isinstance(x, ast.Name) and isinstance(x.ctx, ast.Store): out.add(x.id)
        return out
    top = [st for st in fd.body if not isinstance(st, ast.FunctionDef)]
    locals_ = bound_names(top)
    def is_stmt_call(x): return isinstance(x, ast.Expr) and isinstance(x.value, ast.Call) and isinstance(x.value.func, ast.Name)
    used = any(is_stmt_call(x) and (x.value.func.id in funs or x.value.func.id in locals_) for st in top for x in own_nodes(st))
    if not used: return fd, [], []
    for x in ast.walk(fd):
        if isinstance(x, (ast.Nonlocal, ast.Global)): raise Untranslatable(f'{path}:{x.lineno} ({fd.name}): nonlocal / global')
        if isinstance(x, ast.FunctionDef) and x is not fd and x.name not in funs: raise Untranslatable(f'{path}:{x.lineno} ({fd.name}): nested local function')
    params = {a.arg for a in fd.args.args}
    cells = []
    for st in fd.body:
        if isinstance(st, ast.Assign) and len(st.targets) == 1 and isinstance(st.targets[0], ast.Name) and isinstance(st.value, ast.Call) \
                and isinstance(st.value.func, ast.Name) and st.value.func.id == 'deque' and len(st.value.args) == 1 and not st.value.keywords \
                and isinstance(st.value.args[0], ast.List) and not st.value.args[0].elts:
            cells.append(st.targets[0].id)
    for c in cells:
        stores = [x for x in ast.walk(fd) if isinstance(x, ast.Name) and x.id == c and isinstance(x.ctx, (ast.Store, ast.Del))]
        if len(stores) != 1 or c in params or any(c in {a.arg for a in f.args.args} | bound_names(f.body) for f in funs.values()):
            raise Untranslatable(f'{path}:{fd.lineno} ({fd.name}): the deque {c} is rebound or shadowed')
    allnames = {x.id for x in ast.walk(fd) if isinstance(x, ast.Name)} | params
    closure_params = set()

    def inline(f, call, depth):
        if depth > 4: raise Untranslatable(f'{path}:{call.lineno} ({fd.name}): local functions calling each other too deeply')
        a = f.args
        if a.vararg or a.kwarg or a.kwonlyargs or a.defaults or getattr(a, 'posonlyargs', None) or call.keywords or len(call.args) != len(a.args) \
                or any(isinstance(x, ast.Starred) for x in call.args):
            raise Untranslatable(f'{path}:{call.lineno} ({fd.name}): call of the local function {f.name}: only plain positional arguments')
        for x in ast.walk(f):
            if isinstance(x, (ast.Return, ast.Yield, ast.YieldFrom, ast.Await)): raise Untranslatable(f'{path}:{x.lineno} ({f.name}): a local function used as a procedure must not return / yield')
        loc = {p.arg for p in a.args} | bound_names(f.body)
        ren = {nm: f'{f.name}__{nm}' for nm in loc}
        closure_params.update(ren[p.arg] for p in a.args)
        for new in ren.values():
            if new in allnames: raise Untranslatable(f'{path}:{f.lineno} ({f.name}): the name {new} is taken')
        class Rn(ast.NodeTransformer):
            def visit_Name(self, node):
                return ast.copy_location(ast.Name(id=ren[node.id], ctx=node.ctx), node) if node.id in ren else node
            def visit_Lambda(self, node):
                if {p.arg for p in node.args.args} & (set(ren) | set(ren.values())): raise Untranslatable(f'{path}:{node.lineno} ({f.name}): a lambda parameter shadows a local variable')
                return self.generic_visit(node)
        body = [Rn().visit(copy.deepcopy(b)) for b in f.body]
        pre = [ast.copy_location(ast.Assign(targets=[ast.Name(id=ren[p.arg], ctx=ast.Store())], value=arg, lineno=call.lineno), call) for p, arg in zip(a.args, call.args)]
        out = []
        for st in pre + body:
            ast.fix_missing_locations(st)
            out.extend(expand_stmt(st, depth + 1))
        return out

    def expand_stmt(st, depth):
        if isinstance(st, ast.FunctionDef): return [st]
        if is_stmt_call(st):
            g = st.value.func.id
            if g in funs: return inline(funs[g], st.value, depth)
            if g in locals_:
                # a local variable holding one of the local functions: dispatch on which one it is
                names = list(funs)
                def call_of(nm):
                    c = copy.deepcopy(st); c.value.func = ast.Name(id=nm, ctx=ast.Load()); return ast.fix_missing_locations(c)
                node = None
                for nm in reversed(names):
                    if node is None: node = [call_of(nm)]
                    else:
                        test = ast.Compare(left=ast.Name(id=g, ctx=ast.Load()), ops=[ast.Is()], comparators=[ast.Name(id=nm, ctx=ast.Load())])
                        node = [ast.copy_location(ast.If(test=test, body=[call_of(nm)], orelse=node), st)]
                ast.fix_missing_locations(node[0])
                return expand_stmt(node[0], depth)
            return [st]
        for fld in ('body', 'orelse', 'finalbody'):
            if isinstance(getattr(st, fld, None), list) and not isinstance(st, ast.FunctionDef):
                new = []
                for b in getattr(st, fld): new.extend(expand_stmt(b, depth))
                setattr(st, fld, new)
        return [st]

    fd2 = copy.deepcopy(fd)
    funs = {st.name: st for st in fd2.body if isinstance(st, ast.FunctionDef)}
    body = []
    for st in fd2.body: body.extend(expand_stmt(st, 0))
    fd2.body = body
    ast.fix_missing_locations(fd2)
    cell_uses_ok(fd2, path, cells, funs)
    fd2._closure_params = closure_params
    return fd2, cells, list(funs)


def cell_uses_ok(fd, path, cells, funs):
    """every read of a cell (a local deque that tuples and closures refer to) must be in one of the positions the translator
    handles: an element of a tuple, an operand of is / is not, the right-hand side of `x = cell` (the three where the REFERENCE
    is what matters), the receiver of .append, the iterable of a for, the argument of len(), the first argument of a
    statement-level call of a function that updates it in place (where the current VALUE is used and updated)"""
    parent = {}
    def walk(x, skip):
        for c in ast.iter_child_nodes(x):
            if skip and isinstance(c, ast.FunctionDef): continue        # the bodies of the local functions run only where they were expanded
            parent[c] = x
            walk(c, skip)
    walk(fd, True)
    for x, p in parent.items():
        if not (isinstance(x, ast.Name) and x.id in cells and isinstance(x.ctx, ast.Load)): continue
        ok = (isinstance(p, ast.Tuple) and isinstance(p.ctx, ast.Load)) \
            or (isinstance(p, ast.Compare) and all(isinstance(o, (ast.Is, ast.IsNot)) for o in p.ops)) \
            or (isinstance(p, ast.Assign) and p.value is x and len(p.targets) == 1 and isinstance(p.targets[0], ast.Name)) \
            or (isinstance(p, ast.Attribute) and p.attr == 'append' and isinstance(parent.get(p), ast.Call) and parent[p].func is p and isinstance(parent.get(parent[p]), ast.Expr)) \
            or (isinstance(p, ast.For) and p.iter is x) \
            or (isinstance(p, ast.Call) and isinstance(p.func, ast.Name) and p.func.id == 'len' and p.args == [x] and not p.keywords) \
            or (isinstance(p, ast.Call) and isinstance(p.func, ast.Name) and ('mod:' + path, p.func.id) in MUTATED_PARAM and p.args and p.args[0] is x and isinstance(parent.get(p), ast.Expr))
        if not ok: raise Untranslatable(f'{path}:{x.lineno} ({fd.name}): the deque {x.id} is used in a way that has no reference semantics in the model')


class Translator:
    def __init__(self):
        self.done = {}        # key -> (coqname, rettype, file)
        self.out = {f: [] for f in FILE_ORDER}
        self.inprogress = set()
        self.fingerprints = {}
        self.counter = 0
        self.loops = {}       # name of an emitted loop Fixpoint -> its text
        self.fn_cands = ()    # the local functions / local deques of the function being translated, when they are used as run-time
        self.cell_cands = ()  # values (prepare_closures): the candidates a ('FN', ..) / ('RF', ..) value ranges over
        self.rec_info = {}    # round 4: key of a self-recursive function being translated -> (coqname, declared result type, file)
        self.rec_used = set()
        self.extras = {}      # coqname -> the formats ("%.2f") whose abstract parameters (fmt_2f, keq) the definition takes after O
        self.ixs_mode = False # round 4: inside an IXS_ROOTS function: Intersection objects keep their seg1 ('IXS': 'ixs') / both segments ('IXSS': 'ixss')
        self.zd_mode = False  # round 6: inside a CHECKED function: the ZD_VARIANTS are called in their checked variant (_zd)
        self.pyclip = set()   # round 6: the definitions that take the abstract parameters toZ / clipper (pyclipper)

    # ------------------------------------------------------------------ helpers
    def fresh(self, base):
        self.counter += 1
        return f'{base}_{self.counter}'

    def S(self, v):
        """coerce to scalar text"""
        if v.ty == 'S': return v.tx
        if v.ty == 'I': return f'(ofZ O ({v.const}))'
        if v.ty == 'LEN': return f'(ofZ O (Z.of_nat (length {v.tx})))'      # len(l) of a dynamic list meeting a float
        if v.ty == 'Z': return f'(ofZ O {v.tx})'                            # a run-time int meeting a float
        raise Untranslatable(f'expected scalar, got {v.ty!r}')

    def text(self, v):
        """Coq text of a value (flattening translation-time structure)"""
        if v.ty == 'I': return f'(ofZ O ({v.const}))'
        if v.ty == 'K':
            if v.const is True: return 'true'
            if v.const is False: return 'false'
            if isinstance(v.const, str) and v.const in NODE_TYPES: return NODE_TYPES[v.const]
            if isinstance(v.const, tuple) and v.const[0] in ('localfun', 'cellref'):
                cands = self.fn_cands if v.const[0] == 'localfun' else self.cell_cands
                if len(cands) == 2 and v.const[1] in cands: return 'true' if cands[0] == v.const[1] else 'false'
            raise Untranslatable(f'constant {v.const!r} has no Coq text')
        if v.ty == 'FL':
            return '[' + '; '.join(self.text(i) for i in v.items) + ']'
        if v.ty == 'TUP':
            return '(' + ', '.join(self.text(i) for i in v.items) + ')'
        if isinstance(v.ty, tuple) and v.ty[0] == 'OBJ' and v.tx is None:
            # round 4: an object whose attributes are known one by one: the tuple of its state
            fs = [self.typed_text(v.const['fields'][fa], fty) for fa, fty in OBJECTS[v.ty[1]]['state']]
            return '(' + ', '.join(fs) + ')' if len(fs) > 1 else fs[0]
        if isinstance(v.ty, tuple) and v.ty[0] == 'PATHC' and v.tx is None:
            return '(' + self.text(v.items[0]) + ', ' + self.text(v.items[1]) + ')'      # round 5: (segments, closed)
        if v.tx is None: raise Untranslatable(f'no text for {v!r}')
        return v.tx

    def typed_text(self, v, t):
        """round 4: text of v as a value of the declared type t of an attribute (an int literal as Z, a plain value as Some of it)"""
        if t == 'Z' and v.ty == 'I': return f'({v.const})%Z'
        if t == 'S' and v.ty in ('I', 'Z', 'LEN'): return self.S(v)
        if isinstance(t, tuple) and t[0] == 'O':
            if v.ty == 'K' and v.const is None: return 'None'
            if tmatch(self.rtype(v), t) is not None: return self.text(v)
            return f'(Some {self.typed_text(v, t[1])})'
        if tmatch(self.rtype(v), t) is None: raise Untranslatable(f'a value of type {self.rtype(v)!r} where {t!r} is expected')
        return self.text(v)

    def rtype(self, v):
        """runtime (Coq) type of a value"""
        if v.ty == 'I': return 'S'
        if v.ty == 'K' and isinstance(v.const, bool): return 'B'
        if v.ty == 'K' and isinstance(v.const, str) and v.const in NODE_TYPES: return 'NT'
        if v.ty == 'K' and isinstance(v.const, tuple) and v.const[0] == 'localfun' and v.const[1] in self.fn_cands: return ('FN', self.fn_cands)
        if v.ty == 'K' and isinstance(v.const, tuple) and v.const[0] == 'cellref' and v.const[1] in self.cell_cands: return ('RF', self.cell_cands)
        if v.ty == 'FL':
            ts = {self.rtype(i) for i in v.items}
            if len(ts) == 1: return ('L', ts.pop())
            if not v.items: return ('L', '?')
            raise Untranslatable('heterogeneous list')
        if v.ty == 'TUP': return ('T', tuple(self.rtype(i) for i in v.items))
        return v.ty

    def atomic(self, v):
        tx = v.tx
        return tx is not None and (tx.replace('_', 'a').isalnum())

    # ------------------------------------------------------------------ function translation
    def cdf_S(self, n1, n2):
        key = ('CDF', 'S', (n1, n2))
        if key in self.done: return self.done[key]
        fd2 = find_cdf_method('S')
        self.fingerprints['utils/curvedistance.py:MinimumCurveDistanceFinder.S'] = fingerprint(fd2)
        fd3 = ast.FunctionDef(name='S', args=fd2.args, body=strip_memo(fd2), decorator_list=[], lineno=fd2.lineno)
        fx = FunTx(self, 'utils/curvedistance.py', None, fd3)
        t1, t2 = SEGTY[n1], SEGTY[n2]
        env = {'self': Val('CDF', items=[Val(t1, 'v_bez1'), Val(t2, 'v_bez2')]), 'u': Val('S', 'v_u'), 'v': Val('S', 'v_v')}
        body = fx.block(fd3.body, env, lambda e: Val('K', const=None), lambda v, e: v)
        cname = f'curvedistance_S_{n1}_{n2}'
        self.out['CurveDist'].append(f'(* utils/curvedistance.py: MinimumCurveDistanceFinder.S for orders {n1} x {n2}, line {fd2.lineno} *)\n'
                                     f'Definition {cname} {{T : Type}} (O : Ops T) (v_bez1 : {coqty(t1)}) (v_bez2 : {coqty(t2)}) (v_u : T) (v_v : T) : T :=\n  {self.text(body)}.\n')
        self.done[key] = (cname, 'S', 'CurveDist')
        return self.done[key]

    def cdf_D(self, n1, n2):
        """the table D(r,k), r in 0..2n, k in 0..max(2m,2n) (minDist also reads D(i, 2n)), as a list of rows"""
        key = ('CDF', 'D', (n1, n2))
        if key in self.done: return self.done[key]
        fd2 = find_cdf_method('D')
        fx = FunTx(self, 'utils/curvedistance.py', None, fd2)
        t1, t2 = SEGTY[n1], SEGTY[n2]
        env = {'self': Val('CDF', items=[Val(t1, 'v_bez1'), Val(t2, 'v_bez2')])}
        n, m = n1 - 1, n2 - 1
        rows = []
        for r in range(0, 2 * n + 1):
            row = []
            for k in range(0, max(2 * m, 2 * n) + 1):
                call = ast.parse(f'self.D({r}, {k})', mode='eval').body
                fx.counter += 1000
                row.append(self.S(fx.expr(call, env)))
            rows.append('[' + ';\n    '.join(row) + ']')
        cname = f'curvedistance_D_{n1}_{n2}'
        self.out['CurveDist'].append(f'(* utils/curvedistance.py: MinimumCurveDistanceFinder.D as a table, orders {n1} x {n2} *)\n'
                                     f'Definition {cname} {{T : Type}} (O : Ops T) (v_bez1 : {coqty(t1)}) (v_bez2 : {coqty(t2)}) : list (list T) :=\n  [' + ';\n   '.join(rows) + '].\n')
        self.done[key] = (cname, ('L', ('L', 'S')), 'CurveDist')
        return self.done[key]

    def global_def(self, fx, path, name, node):
        """module-level constant `name = <expr>` of `path` as a named definition; translation-time structure stays inline"""
        key = ('global', path, name)
        if key in self.done:
            cname, rty, file = self.done[key]
            return Val(rty, f'({cname} O)')
        if key in self.inprogress: raise Untranslatable(f'recursion through {key}')
        self.inprogress.add(key)
        sub = FunTx(self, path, None, fx.fd)
        v = sub.expr(node.value, {})
        self.inprogress.discard(key)
        if v.ty in ('I', 'K', 'FL', 'TUP'): return v
        modkey = modkey_of(path)
        cname = f'{modkey}_{name}'
        rty = self.rtype(v)
        if rty != 'S':
            # the constant is a mutable object shared by every call: it is a constant of the model only if the module can never
            # update it -- every other occurrence of the name must be a direct operand of a binary operator (which builds a new object)
            tree = module(path)[1]
            operands = {id(o) for x in ast.walk(tree) if isinstance(x, ast.BinOp) for o in (x.left, x.right)}
            for x in ast.walk(tree):
                if isinstance(x, ast.Global) and name in x.names: raise Untranslatable(f'{path}: `global {name}`')
                if isinstance(x, ast.Name) and x.id == name and x is not node.targets[0] and id(x) not in operands:
                    raise Untranslatable(f'{path}:{x.lineno}: module constant {name} (a mutable object) is used other than as an operand')
        self.fingerprints[f'{path}:.{name}'] = fingerprint(node)
        self.out[FILE_OF[modkey]].append(f'(* {path}: module constant {name}, line {node.lineno} *)\n'
                                        f'Definition {cname} {{T : Type}} (O : Ops T) : {coqty(rty)} :=\n  {self.text(v)}.\n')
        self.done[key] = (cname, rty, FILE_OF[modkey])
        return Val(rty, f'({cname} O)')

    def global_target(self, path, name):
        """a module constant as a translation target of its own (e.g. one only used as a default argument value)"""
        for n in module(path)[1].body:
            if isinstance(n, ast.Assign) and len(n.targets) == 1 and isinstance(n.targets[0], ast.Name) and n.targets[0].id == name:
                fx = FunTx(self, path, None, ast.FunctionDef(name=f'<module constant {name}>', lineno=n.lineno))
                v = self.global_def(fx, path, name, n)
                if ('global', path, name) not in self.done: raise Untranslatable(f'{path}: constant {name} is translation-time structure')
                return v
        raise KeyError((path, name))

    def function(self, cls, name, consts=()):
        """translate method `name` for receiver class `cls` (or module function when cls startswith 'mod:')"""
        key = (cls, name, consts)
        if self.ixs_mode and name in IXS_FUNCTIONS[self.ixs_mode]: key = (cls, name, consts, self.ixs_mode)
        if self.zd_mode and (cls, name) in ZD_VARIANTS: key = (cls, name, consts, 'zd')      # round 6
        if key in self.done: return self.done[key]
        if key in self.inprogress:
            if key in self.rec_info:        # a declared self-recursive function calling itself (callfun checks who is calling)
                self.rec_used.add(key)
                return self.rec_info[key]
            raise Untranslatable(f'recursion through {key}')
        self.inprogress.add(key)
        saved_cands = (self.fn_cands, self.cell_cands)
        saved_ixs = self.ixs_mode
        saved_zd = self.zd_mode
        if (cls, name) in IXS_ROOTS: self.ixs_mode = IXS_ROOTS[(cls, name)]
        self.zd_mode = (cls, name) in CHECKED or (len(key) == 4 and key[3] == 'zd')
        try:
            return self.function_(cls, name, consts, key)
        finally:
            # (also when the translation fails: a caller may catch the failure and translate the call site another way)
            self.ixs_mode = saved_ixs
            self.zd_mode = saved_zd
            self.fn_cands, self.cell_cands = saved_cands
            self.inprogress.discard(key)
            self.rec_info.pop(key, None)

    def function_(self, cls, name, consts, key):
        if cls.startswith('mod:'):
            path = cls[4:]
            fd = find_modfun(path, name); defcls = None
            modkey = modkey_of(path)
            file = FILE_OF_METHOD.get(name, FILE_OF[modkey])
            cname = f'{modkey}_{name}'
            argtys = MODSIG[(path, name)]
            selfty = None
        else:
            path, fd, defcls = find_def(cls, name)
            file = FILE_OF_CLASS_METHOD.get((cls, name), FILE_OF_METHOD.get(name, FILE_OF_DEFCLASS.get(defcls, FILE_OF[cls])))
            cname = f'{PFX[cls]}_{name}'
            argtys = sig_of(cls, name, len(fd.args.args) - 1)
            selfty = SELF_TY.get((cls, name), TY_OF_CLASS.get(cls, 'CLS'))
            if (cls, name) in OPT_SELF: selfty = ('O', selfty)
            if cls in OBJECTS: selfty = obj_type(cls, [a[2] for a in OBJECTS[cls]['abstract']])     # round 4: inside, the abstract parts are the definition's parameters
        self.fingerprints[f'{path}:{defcls or ""}.{name}'] = fingerprint(fd)
        params = [a.arg for a in fd.args.args]
        is_cm = (cls, name) in CLASSMETHODS
        if is_cm != ('classmethod' in decorators(fd)): raise Untranslatable(f'{cls}.{name}: classmethod table and @classmethod decorator disagree')
        env = {}
        coqparams = []
        variant = key[3] if len(key) == 4 else None
        zd = variant == 'zd'
        eff = effects_of(cls, name, consts, 'zd' if zd else None)
        rec = RECURSIVE.get((cls, name))
        by_depth = rec is not None and rec.get('depth', False)      # round 6
        if rec is not None and ('depth' if by_depth else 'fuel') not in eff: raise Untranslatable(f'{cls}.{name}: a recursive function must be declared to use fuel (EFFECTS)')
        if selfty is not None and cls in OBJECTS:
            coqparams += [f'({a[2]} : {abs_coqty(a)})' for a in OBJECTS[cls]['abstract']]
        if 'fuel' in eff: coqparams.append('(fuel : nat)')
        if 'depth' in eff: coqparams.append('(depth : nat)')
        if selfty is not None:
            if is_cm:
                env[params[0]] = Val('K', const=('class', cls))
            else:
                env[params[0]] = Val(selfty, 'self_')
                coqparams.append(f'(self_ : {coqty(selfty)})')
            pnames = params[1:]
        else:
            pnames = params
        if len(argtys) != len(pnames):
            raise Untranslatable(f'{cls}.{name}: signature table has {len(argtys)} args, source has {len(pnames)}')
        ci = 0
        suffix = ''
        for pn, ty in zip(pnames, argtys):
            if ty == 'K':
                env[pn] = Val('K', const=consts[ci]); suffix += f'_{consts[ci]}'; ci += 1
            elif ty == 'A':
                aty = consts[ci][1]; ci += 1
                if aty not in ARG_CLASSES[(cls, name)]: raise Untranslatable(f'{cls}.{name}: no specialisation for argument class {aty!r}')
                env[pn] = Val(aty, 'v_' + pn); suffix += '_' + PFX[CLASS_OF[aty[1] if isinstance(aty, tuple) else aty]]
                coqparams.append(f'(v_{pn} : {coqty(aty)})')
            elif ty == 'KF':
                # round 4: a float fixed at translation time: ('pyfloat', value, Coq text); the default value is not named
                kf = consts[ci]; ci += 1
                if not (isinstance(kf, tuple) and len(kf) == 3 and kf[0] == 'pyfloat'): raise Untranslatable(f'{cls}.{name}: parameter {pn} must be a translation-time float')
                env[pn] = Val('S', kf[2], const=('pyfloat', kf[1]))
                dflt = dict(zip([a.arg for a in fd.args.args][len(fd.args.args) - len(fd.args.defaults):], fd.args.defaults)).get(pn)
                if not (isinstance(dflt, ast.Constant) and type(dflt.value) is float and dflt.value == kf[1]):
                    suffix += '_' + kf[1].hex().replace('.', 'd').replace('-', 'm').replace('+', 'p')
            else:
                env[pn] = Val(ty, 'v_' + pn)
                coqparams.append(f'(v_{pn} : {coqty(ty)})')
        cname += suffix
        ixs = variant if variant in ('ixs', 'ixss') else False
        if zd: cname += '_zd'
        if ixs:
            if eff and ixs == 'ixs': raise Untranslatable(f'{cls}.{name}: no variant with Intersection.seg1 for a function with effects')
            cname += '_' + ixs; file = IXS_FILE[ixs]
        fd, cells, lfuns = prepare_closures(fd, path)
        self.fn_cands, self.cell_cands = tuple(lfuns), tuple(cells)
        fx = FunTx(self, path, cls if selfty else None, fd)
        fx.effects, fx.cname, fx.file = teff(eff), cname, file
        fx.declared = frozenset(eff)
        fx.checked = zd or (cls, name) in CHECKED      # round 6
        fx.zint = (cls, name) in ZINT
        fx.join_early = (cls, name) in JOIN_EARLY
        fx.key = (cls, name)
        fx.cells = tuple(cells)
        fx.closure_params = getattr(fd, '_closure_params', set())
        fx.join_effects = (cls, name) in JOIN_EFFECTS
        fx.ixs = ixs or IXS_ROOTS.get((cls, name), False)       # (round 5: the root itself may build Intersections)
        stateful = (cls, name) in STATEFUL
        if stateful and (rec is None or selfty is None or cls not in OBJECTS): raise Untranslatable(f'{cls}.{name}: a state-changing method must be a declared recursive method of an OBJECTS class')
        if rec is not None:
            # round 4: the body is the `S fuel_` arm of a Fixpoint on fuel; recursive calls (and nothing else) run on fuel_
            rec = dict(rec)
            rec['value'] = rec['ret']
            if stateful: rec['ret'] = ('T', (rec['ret'], selfty))          # (value, new state of the receiver)
            self.rec_info[key] = (cname, mtype(eff, rec['ret']), file)
            self.extras[cname] = list(rec['formats'])
            fx.ret_type = rec['value']
            if by_depth: fx.depth_name = 'depth_'      # round 6: the loops of the callees keep running on `fuel`
            else: fx.fuel_names = ['fuel_']
            fx.recursive = True
        mut = (cls, name) in MUTATORS
        if eff and (((cls, name) in MUTATED_PARAM and eff != {'exc'} and (cls, name) not in CHECKED) or (cls, name) in OPT_SELF): raise Untranslatable(f'{cls}.{name}: a mutator with effects')
        if (cls, name) in MUTATED_PARAM:
            mp = MUTATED_PARAM[(cls, name)]
            if mp not in env: raise Untranslatable(f'{cls}.{name}: no parameter {mp}')
            wrapm = (lambda v: fx.mreturn(v)) if eff else (lambda v: v)       # with 'exc': Returns <the new value of the parameter>
            cont = lambda e: wrapm(e[mp])
            ret = lambda v, e: wrapm(e[mp]) if (v.ty == 'K' and v.const is None) else fx.fail('mutator returns a value')
            fx.live_stack.append({mp})
        elif mut and eff:
            # a mutator that may raise: `Returns <the new self>` where it ends, `Raises e` where it raises
            cont = lambda e: fx.mreturn(e[params[0]])
            ret = lambda v, e: fx.mreturn(e[params[0]]) if (v.ty == 'K' and v.const is None) else fx.fail('mutator returns a value')
        elif mut:
            cont = lambda e: e[params[0]]
            ret = lambda v, e: e[params[0]] if (v.ty == 'K' and v.const is None) else fx.fail('mutator returns a value')
        elif eff and rec is not None:
            cont = lambda e: Val('K', const=None)
            def ret(v, e):      # every result as the declared type
                val = Val(rec['value'], fx.as_type(v, rec['value'], fd))
                return fx.mreturn(Val('TUP', items=[val, e[params[0]]]) if stateful else val)
        elif eff and (cls, name) in RET_DECL:
            fx.ret_type = RET_DECL[(cls, name)]
            # round 6: every result (a `return` without value and the end of the body included) as the declared type
            ret = lambda v, e: fx.mreturn(Val(RET_DECL[(cls, name)], fx.as_type(v, RET_DECL[(cls, name)], fd)))
            cont = lambda e: ret(Val('K', const=None), e)
        elif eff:
            cont = lambda e: Val('K', const=None)
            ret = lambda v, e: fx.mreturn(v)
        else:
            cont = lambda e: Val('K', const=None)
            ret = lambda v, e: v
        if mut: fx.live_stack.append({params[0]})
        if (cls, name) in OPT_SELF:
            me = params[0]
            cont = lambda e: fx.as_optbox(e[me], fd)
            ret = lambda v, e: fx.as_optbox(e[me], fd) if (v.ty == 'K' and v.const is None) else fx.fail('mutator returns a value')
            def variant(selfval):
                e = dict(env); e[me] = selfval
                return fx.block(fd.body, e, cont, ret)
            reads_corners = any(isinstance(x, ast.Attribute) and isinstance(x.value, ast.Name) and x.value.id == me and x.attr in UNSET_BOX
                                for st in fd.body for x in ast.walk(st))
            if reads_corners:
                # the body looks at self.bl / self.tr: translate it once for each state of the receiver
                bN = variant(Val('UBB', const=dict(UNSET_BOX)))
                bS = variant(Val('BB', 'b_'))
                body = Val(selfty, f'(match self_ with\n  | None =>\n  {self.text(bN)}\n  | Some b_ =>\n  {self.text(bS)}\n  end)')
            else:
                body = variant(Val(selfty, 'self_'))
        else:
            body = fx.block(fd.body, env, cont, ret)
        if body.ty == 'FL' and not body.items and (cls, name) in RET:
            body = Val(RET[(cls, name)], '[]')
        text = self.text(body)
        rty = self.rtype(body) if not (body.ty == 'K' and body.const is None) else None
        if rty is None: raise Untranslatable(f'{cls}.{name} returns None')
        if mentions_xs(rty): raise Untranslatable(f'{cls}.{name}: a float that started as float("inf") is part of the result {rty!r}')      # round 7
        if eff:
            if is_mtype(rty) is None or is_mtype(rty)[0] != set(teff(eff)): raise Untranslatable(f'{cls}.{name}: result {rty!r} does not carry the declared effects {sorted(eff)}')
            if fx.pending: raise Untranslatable(f'{cls}.{name}: unflushed effects')
            for e_ in eff:
                if e_ not in fx.occurred: raise Untranslatable(f'{cls}.{name}: declared effect {e_!r} never occurs')
        src = f'(* {path}: {defcls + "." if defcls else ""}{name}, line {fd.lineno} *)\n'
        # round 4: the abstract parameters (string formats and the equality of their results) come right after O
        fmts = sorted(fx.formats)
        if rec is not None:
            if fmts != sorted(rec['formats']): raise Untranslatable(f'{cls}.{name}: uses the formats {fmts!r}, declared {sorted(rec["formats"])!r} (RECURSIVE)')
            if key not in self.rec_used: raise Untranslatable(f'{cls}.{name}: declared recursive (RECURSIVE) but never calls itself')
            if tmatch(rty, mtype(eff, rec['ret'])) is None: raise Untranslatable(f'{cls}.{name}: result {rty!r}, declared {mtype(eff, rec["ret"])!r} (RECURSIVE)')
            fmts = list(rec['formats']); rty = mtype(eff, rec['ret'])
        if fx.uses_pyclipper:      # round 6: after the format parameters
            self.pyclip.add(cname)
            coqparams.insert(0, '(toZ : T -> option Z) (clipper : clip_type -> list (list (Z * Z)) -> list (list (Z * Z)) -> option (list (list (Z * Z))))')
        if fmts:
            self.extras[cname] = fmts
            coqparams.insert(0, '{K : Type} ' + ' '.join(f'({fmt_param(f)} : T -> K)' for f in fmts) + ' (keq : K -> K -> bool)')
        if rec is not None:
            fl = 'depth' if by_depth else 'fuel'
            self.out[file].append(src + f'Fixpoint {cname} {{T : Type}} (O : Ops T) {" ".join(coqparams)} {{struct {fl}}} : {coqty(rty)} :=\n'
                                        f'  match {fl} with\n  | Datatypes.O => None\n  | S {fl}_ =>\n  {text}\n  end.\n')
        else:
            self.out[file].append(src + f'Definition {cname} {{T : Type}} (O : Ops T) {" ".join(coqparams)} : {coqty(rty)} :=\n  {text}.\n')
        self.done[key] = (cname, rty, file)
        return self.done[key]


RET = {('Line', 'findExtremes'): ('L', 'S')}
# round 4: results whose element type the inference leaves open (`inter = []` filled by a fold: the definition's header says
# `list (_)`), as their callers may read them; Coq checks the claim when the caller is compiled
RET_REFINE = {('QuadraticBezier', '_curve_line_intersections'): ('L', 'IX'), ('CubicBezier', '_curve_line_intersections'): ('L', 'IX')}
# round 4: immutable library values computed at translation time, Val('K', const=('py', obj)): the constructors, methods without
# arguments and int attributes that may be applied to them (Decimal(str(precision)).as_tuple().exponent)
RANGE_Z_FILES = {'MinDist', 'PathOps', 'Fit', 'Clip'}     # round 4: the generated files whose prelude has range_Z (round 5: or that import it)
PY_PURE_METHODS = {('Decimal', 'as_tuple')}
PY_PURE_ATTRS = {('DecimalTuple', 'exponent')}
PYEXC = {'ValueError': 'PyValueError', 'IndexError': 'PyIndexError'}
def teff(eff):
    """round 6: the effects a result TYPE carries: running out of `depth` is None, like running out of `fuel`"""
    return frozenset('fuel' if e == 'depth' else e for e in eff)


def fmt_param(fmt):
    """round 4: the name of the abstract parameter that stands for `fmt % x`; only "%.<digits>f" """
    import re
    m = re.fullmatch(r'%\.(\d+)f', fmt)
    if not m: raise Untranslatable(f'string format {fmt!r} (only "%.<d>f" of one float is modelled, as an abstract parameter)')
    return f'fmt_{m.group(1)}f'
INT_FUNS = {('utils/curvedistance.py', 'C')}
INLINE_FUNS = {('utils/curvedistance.py', 'A_r'), ('utils/curvedistance.py', 'C_rk'), ('utils/curvedistance.py', 'basis_function')}
ALIASES = {('utils/curvedistance.py', 'B_k'): 'A_r'}


def run_int_function(path, name, args):
    """int-only helper (binomial coefficient): executed from the source itself at translation time"""
    import math as _math
    fd = find_modfun(path, name)
    ns = {'math': _math}
    exec(compile(ast.Module(body=[fd], type_ignores=[]), path, 'exec'), ns)
    r = ns[name](*args)
    if not isinstance(r, int): raise Untranslatable(f'{name}{tuple(args)} is not an int')
    return r


def strip_memo(fd):
    """memo tables are semantically transparent (DESIGN 4/C20): recognise exactly the two shapes used and drop them"""
    body = [b for b in fd.body if not (isinstance(b, ast.Expr) and isinstance(b.value, ast.Constant))]
    def is_cache_sub(x):
        return isinstance(x, ast.Subscript) and isinstance(x.value, ast.Attribute) and isinstance(x.value.value, ast.Name) \
            and x.value.value.id == 'self' and x.value.attr.endswith('Cache')
    # shape 1: if K not in self.c: self.c[K] = E ; return self.c[K]
    if len(body) == 2 and isinstance(body[0], ast.If) and isinstance(body[0].test, ast.Compare) and isinstance(body[0].test.ops[0], ast.NotIn) \
            and len(body[0].body) == 1 and isinstance(body[0].body[0], ast.Assign) and is_cache_sub(body[0].body[0].targets[0]) \
            and isinstance(body[1], ast.Return) and is_cache_sub(body[1].value) and not body[0].orelse:
        new = ast.Return(value=body[0].body[0].value)
        return [ast.copy_location(new, body[1])]
    # shape 2: if K in self.c: return self.c[K] ; ... ; self.c[K] = v ; return v
    if len(body) >= 3 and isinstance(body[0], ast.If) and isinstance(body[0].test, ast.Compare) and isinstance(body[0].test.ops[0], ast.In) \
            and len(body[0].body) == 1 and isinstance(body[0].body[0], ast.Return) and is_cache_sub(body[0].body[0].value) \
            and isinstance(body[-2], ast.Assign) and is_cache_sub(body[-2].targets[0]) and isinstance(body[-2].value, ast.Name) \
            and isinstance(body[-1], ast.Return) and isinstance(body[-1].value, ast.Name) and body[-1].value.id == body[-2].value.id:
        return body[1:-2] + [body[-1]]
    raise Untranslatable(f'{fd.name}: unrecognised memo shape')


def find_cdf_method(name):
    src, tree = module('utils/curvedistance.py')
    for n in tree.body:
        if isinstance(n, ast.ClassDef) and n.name == 'MinimumCurveDistanceFinder':
            for m in n.body:
                if isinstance(m, ast.FunctionDef) and m.name == name: return m
    raise KeyError(name)


MODSIG = {
    ('utils/__init__.py', 'quadraticRoots'): ['S', 'S', 'S'],
    # path/geometricshapes.py: origin=None is Optional[Point]; superness is a plain float (its default is the module constant
    # CIRCULAR_SUPERNESS, emitted as geometricshapes_CIRCULAR_SUPERNESS and substituted at calls that omit the argument)
    ('path/geometricshapes.py', 'Rectangle'): ['S', 'S', ('O', 'P')],
    ('path/geometricshapes.py', 'Square'): ['S', ('O', 'P')],
    ('path/geometricshapes.py', 'Ellipse'): ['S', 'S', ('O', 'P'), 'S'],
    ('path/geometricshapes.py', 'Circle'): ['S', ('O', 'P'), 'S'],
    ('utils/curvefitter.py', 'B0'): ['S'], ('utils/curvefitter.py', 'B1'): ['S'],
    ('utils/curvefitter.py', 'B2'): ['S'], ('utils/curvefitter.py', 'B3'): ['S'],
    # utils/linesweep.py: the deques hold (shape, bounds) pairs; `condition` is only called
    ('utils/linesweep.py', 'dequefilter'): [('DQ', ('T', ('SHAPE', 'BB'))), ('FUN', (('T', ('SHAPE', 'BB')),), 'B')],
    ('utils/linesweep.py', 'bbox_intersections'): [('L', 'SHAPE'), ('L', 'SHAPE')],
    # round 4: specialised on the classes of the two segments
    ('utils/curvedistance.py', 'curveDistance'): ['A', 'A'],
}


class FunTx:
    """translation of one function body"""

    def __init__(self, tr, path, cls, fd):
        self.tr, self.path, self.cls, self.fd = tr, path, cls, fd
        self.src = module(path)[0]
        self.localfuns = {}
        self.live_stack = []
        self.counter = 0
        # effects (see EFFECTS): what the function being translated may do, what has occurred so far, the effectful operations of
        # the statement being translated that still have to be wrapped around it (`pending`), and where we are:
        #   ctx 'fun'  : statement level of the function body (its declared effects may be flushed here)
        #   ctx 'loop' : body of a `while` loop, whose Fixpoint returns `option`: only running out of fuel may be flushed
        #   ctx 'pure' : body of a fold / inlined function / comprehension: nothing may be flushed
        self.effects, self.cname, self.file = frozenset(), None, None
        self.occurred = set()
        self.pending = []
        self.ctx_stack = ['fun']
        self.pure_depth = 0          # > 0: inside an expression that Python evaluates conditionally or repeatedly
        self.fuel_names = ['fuel']   # name of the fuel budget in the current context
        self.fuel_used = [False]
        self.loop_stack = []         # (exit, again) continuations of the enclosing `while`; None under a `for`
        self.loop_ids = {}
        self.loop_flags = []         # per enclosing while: {'exc': does its body raise}
        self.trial = 0               # > 0: translating a loop body only to infer the types of its carried variables
        self.cells = ()              # local deques with reference semantics (prepare_closures)
        self.closure_params = set()  # the (renamed) parameters of the local functions expanded in place
        self.formats = set()         # round 4: the string formats ("%.2f") used, here or in a callee: abstract parameters of the definition
        self.join_effects = False    # round 4: JOIN_EFFECTS
        self.recursive = False       # round 4: RECURSIVE (the body is the `S fuel_` arm of a Fixpoint on fuel)
        self.in_stateful_call = False
        self.ixs = False             # round 4: Intersection(..) as an 'IXS' (with seg1)
        self.unbound_memo = {}       # round 5: per statement: possibly-unbound variable -> (its text, the value a read of it found)
        self.local_imports = {}      # round 5: names bound by a function-level `from beziers.. import f` -> module path
        # round 6
        self.declared = frozenset()  # the declared effects ('depth' included; self.effects has 'fuel' for it: what the result type carries)
        self.depth_name = 'depth'    # name of the recursion budget in the current context
        self.checked = False         # CHECKED: checked arithmetic
        self.zint = False            # ZINT: Python ints as Z
        self.join_early = False      # JOIN_EARLY
        self.mreturn_tag = None      # 'inl' while a `return` inside a branch joined with early returns is translated
        self.ret_type = None         # the declared type of the value returned (RECURSIVE / RET_DECL)
        self.uses_pyclipper = False  # the definition takes the abstract parameters toZ / clipper
        self.key = None
        self.parents = None          # child ast node -> parent, of the function being translated (built on demand)

    def fresh(self, base):
        self.counter += 1
        return f'{base}_{self.counter}'

    def fail(self, msg, node=None):
        where = f'{self.path}:{getattr(node, "lineno", self.fd.lineno)}'
        raise Untranslatable(f'{where} ({self.fd.name}): {msg}')

    # ------------------------------------------------------------------ constants
    def lit_float(self, node):
        v = node.value
        seg = ast.get_source_segment(self.src, node)
        try:
            q = Fraction(seg.replace('_', ''))
        except Exception:
            q = Fraction(repr(v))
        if float(q) != v: self.fail(f'literal {seg} does not evaluate to its float', node)
        return Val('S', f'(lit O ({q.numerator}) ({q.denominator}) ({v.hex()})%float)', const=('pyfloat', v))

    def global_const(self, name, node):
        paths = [self.path]
        src, tree = module(self.path)
        for n in tree.body:
            if isinstance(n, ast.ImportFrom) and n.module and n.module.startswith('beziers'):
                for a in n.names:
                    if a.name == name:
                        p = n.module.split('.', 1)[1].replace('.', '/')
                        paths.append(p + '.py' if os.path.exists(os.path.join(SRC, p + '.py')) else p + '/__init__.py')
        for p in paths:
            s, t = module(p)
            for n in t.body:
                if isinstance(n, ast.Assign) and len(n.targets) == 1 and isinstance(n.targets[0], ast.Name) and n.targets[0].id == name:
                    if p in NAMED_GLOBAL_MODULES: return self.tr.global_def(self, p, name, n)
                    sub = FunTx(self.tr, p, None, self.fd)
                    return sub.expr(n.value, {})
        return None

    # ------------------------------------------------------------------ expressions
    def expr(self, n, env):
        tr = self.tr
        if isinstance(n, ast.Constant):
            v = n.value
            if isinstance(v, bool) or v is None or isinstance(v, str): return Val('K', const=v)
            if isinstance(v, int): return Val('I', const=v)
            if isinstance(v, float): return self.lit_float(n)
            self.fail(f'constant {v!r}', n)
        if isinstance(n, ast.Name):
            if n.id in env:
                if isinstance(env[n.id].ty, tuple) and env[n.id].ty[0] == 'U': return self.read_unbound(n, env)      # round 5
                return env[n.id]
            if n.id in self.localfuns: return Val('K', const=('localfun', n.id))
            g = self.global_const(n.id, n)
            if g is not None: return g
            if n.id in self.local_imports and MODULE_OF_CLASS.get(n.id) == self.local_imports[n.id] and n.id in MRO:
                return Val('K', const=('class', n.id))       # round 6: a class imported at function level from its own module
            if n.id in ('Point', 'Line', 'QuadraticBezier', 'CubicBezier', 'AffineTransformation'):
                return Val('K', const=('class', n.id))
            if n.id == 'BezierPath' and (imports_name(self.path, 'BezierPath', 'beziers.path') or self.names_class('BezierPath')):      # (round 5: or inside its own module)
                return Val('K', const=('class', 'BezierPath'))
            if n.id in RECORD_OF_CLASS and self.names_class(n.id):
                return Val('K', const=('class', n.id))
            self.fail(f'unbound name {n.id}', n)
        if isinstance(n, ast.UnaryOp):
            a = self.expr(n.operand, env)
            if isinstance(n.op, ast.USub):
                if a.ty == 'I': return Val('I', const=-a.const)
                if a.ty == 'S': return Val('S', f'(neg O {a.tx})')
                self.fail(f'negation of {a.ty}', n)
            if isinstance(n.op, ast.Not):
                return self.truth(a, n, negate=True)
            self.fail('unary op', n)
        if isinstance(n, ast.BinOp):
            return self.binop(type(n.op).__name__, self.expr(n.left, env), self.expr(n.right, env), n)
        if isinstance(n, ast.Compare):
            parts = []
            byref = all(isinstance(o, (ast.Is, ast.IsNot)) for o in n.ops)
            left = self.ref_or_value(n.left, env) if byref else self.expr(n.left, env)
            for op, rn in zip(n.ops, n.comparators):
                right = self.ref_or_value(rn, env) if byref else self.expr(rn, env)
                parts.append(self.compare(type(op).__name__, left, right, n))
                left = right
            return self.conj(parts, 'andb')
        if isinstance(n, ast.BoolOp):
            lk = self.len_eq_test(n.values[0], env) if isinstance(n.op, ast.And) and len(n.values) > 1 else None
            if lk is not None:
                # `len(X) == k and rest`: rest is evaluated only when X has exactly k items, and sees them (X[-1] cannot fail there)
                X, k = lk
                e2, pat = self.items_view(X, k, env)
                r = self.conj(self.purely(lambda: [self.truth(self.expr(v, e2), n) for v in n.values[1:]]), 'andb')
                return Val('B', f'(match {env[X].tx} with {pat} => {self.tr.text(r)} | _ => false end)')
            if isinstance(n.op, ast.Or) and len(n.values) == 2 and self.key in CLIP_FUNS:
                # round 6: `X or Y` as a VALUE, X an Optional segment (line._orig): X when it is a segment (always truthy: Segment.__len__ is the
                # number of points, no __bool__), else Y
                a0 = self.expr(n.values[0], env)
                if a0.ty == ('O', 'SEG') and a0.tx is not None:
                    for t_ in SEGN: self.always_truthy(t_, n)
                    b0 = self.purely(lambda: self.expr(n.values[1], env))
                    z = self.fresh('z')
                    return Val('SEG', f'(match {a0.tx} with Some {z} => {z} | None => {self.as_type(b0, "SEG", n)} end)')
            if isinstance(n.op, ast.Or) and len(n.values) > 1 and self.key in ROUND6:
                # round 6: `len(X) == 0 or <rest>`: <rest> is evaluated only when X is not empty, and may read X[-1] (nothing else of X)
                lz = self.list_test(n.values[0], env)
                if lz is not None and lz[1] and env[lz[0]].ty[1] != '?':
                    X = lz[0]
                    z = self.fresh('z')
                    e2 = dict(env); e2[X] = Val(env[X].ty, env[X].tx, const=('lastis', z))
                    r = self.conj(self.purely(lambda: [self.truth(self.expr(v, e2), n) for v in n.values[1:]]), 'orb')
                    return Val('B', f'(match last_error {env[X].tx} with None => true | Some {z} => {self.tr.text(r)} end)')
            nr = self.narrow_boolop(n, env)
            if nr is not None: return nr
            first = self.truth(self.expr(n.values[0], env), n)
            saved = (self.counter, tr.counter, len(self.pending))
            try:
                vs = [first] + self.purely(lambda: [self.truth(self.expr(v, env), n) for v in n.values[1:]])
            except Untranslatable as e1_:
                if isinstance(e1_, EffectInJoin) or not ('exc' in self.effects and self.pure_depth == 0 and isinstance(n.op, ast.And) and first.ty == 'B'): raise
                self.counter, tr.counter = saved[0], saved[1]; del self.pending[saved[2]:]
                return self.raising_and(first, n, env, e1_)
            return self.conj(vs, 'andb' if isinstance(n.op, ast.And) else 'orb')
        if isinstance(n, ast.IfExp):
            c = self.truth(self.expr(n.test, env), n)
            a, b = self.purely(lambda: (self.expr(n.body, env), self.expr(n.orelse, env)))
            if c.ty == 'K': return a if c.const else b
            return self.join(c, a, b, n)
        if isinstance(n, ast.Attribute):
            return self.attribute(n, env)
        if isinstance(n, ast.Subscript):
            return self.subscript(n, env)
        if isinstance(n, ast.Call):
            return self.call(n, env)
        if isinstance(n, ast.Tuple):
            return Val('TUP', items=[self.ref_or_value(e, env) for e in n.elts])
        if isinstance(n, ast.Dict):
            if n.keys: self.fail('dict literal with items', n)
            return Val(('DICT', '?', '?'), '[]')
        if isinstance(n, ast.Lambda):
            a = n.args
            if a.vararg or a.kwarg or a.kwonlyargs or a.defaults or getattr(a, 'posonlyargs', None): self.fail('lambda signature', n)
            return Val('K', const=('lambda', n, env))
        if isinstance(n, ast.List):
            return Val('FL', items=[self.expr(e, env) for e in n.elts])
        if isinstance(n, ast.ListComp):
            return self.listcomp(n, env)
        if isinstance(n, ast.JoinedStr):
            # round 4: an f-string all of whose fields are translation-time ints (no conversion, no format spec): a constant string
            parts = []
            for x in n.values:
                if isinstance(x, ast.Constant) and isinstance(x.value, str): parts.append(x.value); continue
                if isinstance(x, ast.FormattedValue) and x.conversion == -1 and x.format_spec is None:
                    v = self.expr(x.value, env)
                    if v.ty == 'I': parts.append(str(v.const)); continue
                self.fail('f-string field that is not a translation-time int', n)
            return Val('K', const=''.join(parts))
        self.fail(f'expression {type(n).__name__}', n)

    def narrow_boolop(self, n, env):
        """round 4: `X and <rest>` / `not X or <rest>`, X a variable or an attribute of the receiver holding an Optional value: <rest>
        is evaluated only when X is not None, and sees its value:
            match X with None => false | Some z => <z is truthy> && <rest> end      (resp.  None => true | Some z => <z is falsy> || <rest>)"""
        tr = self.tr
        isand = isinstance(n.op, ast.And)
        e0 = n.values[0]
        if not isand:
            if not (isinstance(e0, ast.UnaryOp) and isinstance(e0.op, ast.Not)): return None
            e0 = e0.operand
        if isinstance(e0, ast.Name) and e0.id in env: holder = None
        elif isinstance(e0, ast.Attribute) and isinstance(e0.value, ast.Name) and e0.value.id in env and isinstance(env[e0.value.id].ty, tuple) \
                and env[e0.value.id].ty[0] == 'OBJ' and e0.attr in dict(OBJECTS[env[e0.value.id].ty[1]]['state']): holder = e0.value.id
        else: return None
        v = self.expr(e0, env)
        if not (isinstance(v.ty, tuple) and v.ty[0] == 'O' and v.tx is not None and (v.ty[1] in ('S', 'Z') or (v.ty[1] == '?' and self.trial > 0))): return None
        z = self.fresh('z')
        inner = Val(v.ty[1], z)
        e2 = dict(env)
        if holder is None: e2[e0.id] = inner
        else:
            fields = self.obj_fields(env[holder]); fields[e0.attr] = inner
            e2[holder] = Val(env[holder].ty, const={'fields': fields})
        c0 = self.truth(inner, n, negate=not isand)
        rest = self.conj(self.purely(lambda: [self.truth(self.expr(x, e2), n) for x in n.values[1:]]), 'andb' if isand else 'orb')
        both = self.conj([c0, rest], 'andb' if isand else 'orb')
        return Val('B', f'(match {v.tx} with None => {"false" if isand else "true"} | Some {z} => {tr.text(both)} end)')

    def raising_and(self, first, n, env, why):
        """round 4: `a and b and ..` where a later operand may raise (never consume fuel): Python evaluates it only when the operands
        before it are true.  The conjunction is computed as an `outcome bool`,
            if a then <b's operations, ending in Returns b, or Raises e> else Returns false
        and bound around the statement being translated like the result of a call that may raise."""
        def go(c, rest):
            if not rest: return f'(Returns {c.tx})'
            mark = len(self.pending)
            try:
                nxt = self.truth(self.expr(rest[0], env), n)
            except Untranslatable as e2_:
                raise Untranslatable(f'{e2_} [as a pure conjunction: {why}]')
            ents = self.pending[mark:]
            del self.pending[mark:]
            if nxt.ty != 'B': self.fail('a translation-time operand after one that may raise', n)
            inner = self.in_ctx('comp', lambda: self.wrap(ents, go(nxt, rest[1:]), 'comp', n))
            return f'(if {c.tx} then\n  {inner}\n  else (Returns false))'
        text = go(first, n.values[1:])
        r = self.fresh('r')
        self.push_effect({'effects': {'exc'}, 'what': 'conjunction whose later operands may raise', 'kind': 'call', 'text': text, 'pat': r}, n)
        return Val('B', r)

    def ref_or_value(self, e, env):
        """an element of a tuple / an operand of `is`: the name of a cell (a local deque with reference semantics) denotes the
        deque itself, not its current contents"""
        if isinstance(e, ast.Name) and e.id in self.cells and e.id in env: return Val('K', const=('cellref', e.id))
        return self.expr(e, env)

    def lambda_text(self, v, argtys, n):
        """a lambda (evaluated where it is passed, only ever called by the callee) as a Coq function of the given argument types"""
        _, node, lenv = v.const
        ps = [a.arg for a in node.args.args]
        if len(ps) != len(argtys): self.fail('lambda arity', n)
        e2 = dict(lenv)
        for p_, t in zip(ps, argtys): e2[p_] = Val(t, 'v_' + p_)
        body = self.purely(lambda: self.in_ctx('pure', lambda: self.expr(node.body, e2)))
        return body, '(fun ' + ' '.join(f'(v_{p_} : {coqty(t)})' for p_, t in zip(ps, argtys)) + f' => {self.tr.text(body) if body.ty != "I" else self.tr.S(body)})'

    def extremum_by(self, name, lst, key, n):
        """round 4: min(l, key=lambda x: <float>) / max over a list literal of run-time items: CPython keeps the first item and replaces
        it by a later one whose key compares strictly smaller (greater); the items become tuples of one common type"""
        tr = self.tr
        _, node, lenv = key.const
        ps = [a.arg for a in node.args.args]
        if len(ps) != 1: self.fail('key function arity', n)
        def keyof(v):
            e2 = dict(lenv); e2[ps[0]] = v
            k = self.purely(lambda: self.in_ctx('pure', lambda: self.expr(node.body, e2)))
            if k.ty not in ('S', 'I'): self.fail(f'key of type {k.ty!r}', n)
            return tr.S(k)
        ty = None
        for it in lst.items:
            t = tr.rtype(it)
            if isinstance(t, tuple) and t[0] == 'L' and it.ty == 'FL': t = ('T', tuple(tr.rtype(x) for x in it.items))      # a list literal of fixed length, only indexed
            ty = t if ty is None else tmatch(ty, t)
            if ty is None: self.fail('items of different types', n)
        if not (isinstance(ty, tuple) and ty[0] == 'T'): self.fail(f'{name}(key=) over items of type {ty!r}', n)
        acc = Val(ty, self.as_type(lst.items[0], ty, n))
        lets = []
        for it in lst.items[1:]:
            nm = self.fresh('m')
            b = Val(ty, self.as_type(it, ty, n))
            kb, ka = keyof(it), keyof(acc if tr.atomic(acc) else lst.items[0])
            c = f'(ltb O {kb} {ka})' if name == 'min' else f'(ltb O {ka} {kb})'
            lets.append(f'let {nm} := (if {c} then {b.tx} else {acc.tx}) in ')
            acc = Val(ty, nm)
        return Val(ty, '(' + ''.join(lets) + acc.tx + ')')

    def names_class(self, name):
        """is `name`, at the top level of the module being translated, the class of MODULE_OF_CLASS (defined there, or imported from its module)?"""
        src, tree = module(self.path)
        for n in tree.body:
            if isinstance(n, ast.ClassDef) and n.name == name: return MODULE_OF_CLASS[name] == self.path
            if isinstance(n, ast.ImportFrom) and n.module and n.level == 0:
                for a in n.names:
                    if a.name == name and a.asname is None:
                        return 'beziers/' + MODULE_OF_CLASS[name] == n.module.replace('.', '/') + '.py'
        return False

    def conj(self, parts, f):
        # translation-time folding of constants, left to right (Python short-circuit has no effects here)
        out = None
        for p in parts:
            if p.ty == 'K':
                if (f == 'andb' and p.const is False) or (f == 'orb' and p.const is True): return p if out is None else Val('B', f'({f} {out.tx} {"false" if f == "andb" else "true"})')
                continue
            out = p if out is None else Val('B', f'({f} {out.tx} {p.tx})')
        if out is None: return Val('K', const=(f == 'andb'))
        return out

    def truth(self, v, n, negate=False):
        if v.ty == 'K':
            if isinstance(v.const, tuple): b = True
            else: b = bool(v.const)
            return Val('K', const=(not b) if negate else b)
        if v.ty == 'I':
            return Val('K', const=(not v.const) if negate else bool(v.const))
        if v.ty == 'B':
            return Val('B', f'(negb {v.tx})') if negate else v
        if v.ty == '?' and self.trial > 0: return Val('B', '_')      # round 4: while the types of a loop's accumulators are being inferred
        if v.ty == 'S':       # round 4: a float is falsy iff it is 0.0 / -0.0 (a NaN is truthy)
            return Val('B', f'(eqb O {v.tx} (ofZ O 0))') if negate else Val('B', f'(neqb O {v.tx} (ofZ O 0))')
        if v.ty == 'Z':
            return Val('B', f'({v.tx} =? 0)%Z') if negate else Val('B', f'(negb ({v.tx} =? 0)%Z)')
        if isinstance(v.ty, tuple) and v.ty[0] == 'L':
            return Val('B', f'(isnil {v.tx})') if negate else Val('B', f'(negb (isnil {v.tx}))')
        if v.ty == 'FL':
            return Val('K', const=(not v.items) if negate else bool(v.items))
        if v.ty == 'LEN':
            return Val('B', f'(isnil {v.tx})') if negate else Val('B', f'(negb (isnil {v.tx}))')
        if isinstance(v.ty, tuple) and v.ty[0] == 'O':
            if v.ty[1] == 'S':   # Optional[float]: None and 0.0 are both falsy
                t = f'(match {v.tx} with None => false | Some z_ => negb (eqb O z_ (ofZ O 0)) end)'
            else:
                t = f'(match {v.tx} with None => false | Some _ => true end)'
            return Val('B', f'(negb {t})') if negate else Val('B', t)
        if isinstance(v.ty, tuple) and v.ty[0] == 'T' and len(v.ty[1]) > 0:      # round 5: a non-empty tuple
            return Val('K', const=not True if negate else True)
        if v.ty == 'M' or v.ty == 'P' or v.ty in SEGN:
            self.always_truthy(v.ty, n)
            return Val('K', const=not True if negate else True)
        self.fail(f'truth value of {v.ty!r}', n)

    def always_truthy(self, ty, n):
        """an instance is truthy unless its class defines __bool__ or __len__ (Segment.__len__ is the number of points, never 0)"""
        cls = CLASS_OF[ty]
        for m in ('__bool__', '__len__'):
            try: find_def(cls, m)
            except KeyError: continue
            if ty in SEGN and m == '__len__': continue
            self.fail(f'{cls} defines {m}: the truth value of an instance is not constant', n)

    def binop(self, op, a, b, n):
        tr = self.tr
        num = lambda v: v.ty in ('S', 'I', 'LEN', 'Z')
        if 'exc' in self.effects and op in ('Add', 'Sub', 'Mult', 'Div'):
            # round 4: None as an operand of arithmetic is a TypeError
            if isinstance(a.ty, tuple) and a.ty[0] == 'O' and a.ty[1] in ('S', 'Z') and a.tx is not None: a = self.unnone(a, n)
            if isinstance(b.ty, tuple) and b.ty[0] == 'O' and b.ty[1] in ('S', 'Z') and b.tx is not None: b = self.unnone(b, n)
        if op == 'Mod' and a.ty == 'K' and isinstance(a.const, str):
            # round 4: "%.<d>f" % x, x a float: the string is a value of the abstract type K, computed by the parameter fmt_<d>f
            if b.ty != 'S': self.fail(f'string formatting of {b.ty!r} (only one float)', n)
            try: f = fmt_param(a.const)
            except Untranslatable as e: self.fail(str(e), n)
            self.formats.add(a.const)
            return Val('STR', f'({f} {b.tx})')
        if op == 'Add' and self.key in CHECKED and any(self.is_optlist(x) for x in (a, b)) and all(self.is_optlist(x) or self.is_list(x) for x in (a, b)):
            # round 6: list + list where an operand may be None: both operands are evaluated, then None is a TypeError
            return self.list_concat(a, b, n)
        if op == 'Add' and self.key in CLIP_FUNS and isinstance(a.ty, tuple) and a.ty[0] == 'L' and a.ty[1] != '?' and a.tx is not None and b.ty == 'FL' and b.items \
                and all(tmatch(tr.rtype(i), a.ty[1]) is not None for i in b.items):
            # round 6: <list> + [<items>]: a fresh list, known to be non-empty
            return Val(a.ty, f'({a.tx} ++ {tr.text(b)})', const=('nonempty',))
        if self.zint and op in ('Add', 'Sub', 'Mult') and 'LEN' in (a.ty, b.ty) and a.ty in ('Z', 'I', 'LEN') and b.ty in ('Z', 'I', 'LEN'):
            # round 6 (ZINT): len(l) meeting ints is an int
            return Val('Z', f'({self.Zt(a)} {dict(Add="+", Sub="-", Mult="*")[op]} {self.Zt(b)})%Z')
        if self.checked and op == 'Div' and (num(b) or (isinstance(b.ty, tuple) and b.ty[0] == 'O')) and not (a.ty == 'I' and b.ty == 'I'):
            b = self.checked_divisor(b, n)
        if a.ty == 'I' and b.ty == 'I':
            x, y = a.const, b.const
            if op == 'Add': return Val('I', const=x + y)
            if op == 'Sub': return Val('I', const=x - y)
            if op == 'Mult': return Val('I', const=x * y)
            if op == 'FloorDiv': return Val('I', const=x // y)
            if op == 'Mod': return Val('I', const=x % y)
            if op == 'Div': return Val('S', f'(dvd O (ofZ O ({x})) (ofZ O ({y})))')
            if op == 'Pow' and y >= 0: return Val('I', const=x ** y)
            self.fail(f'int op {op}', n)
        if 'Z' in (a.ty, b.ty) and a.ty in ('Z', 'I') and b.ty in ('Z', 'I') and op in ('Add', 'Sub', 'Mult'):
            return Val('Z', f'({self.Zt(a)} {dict(Add="+", Sub="-", Mult="*")[op]} {self.Zt(b)})%Z')
        if a.ty == 'Z' and b.ty == 'I' and op == 'Mod' and b.const > 0:
            return Val('Z', f'({a.tx} mod {self.Zt(b)})%Z')       # round 4: Python's % by a positive int is Z.modulo
        if num(a) and num(b):
            f = {'Add': 'add', 'Sub': 'sub', 'Mult': 'mul', 'Div': 'dvd'}.get(op)
            if f: return Val('S', f'({f} O {tr.S(a)} {tr.S(b)})')
            if op == 'Pow':
                if b.ty == 'I' and b.const >= 0: return Val('S', f'(powi O {tr.S(a)} {b.const}%nat)')
                return Val('S', f'(pow_ O {tr.S(a)} {tr.S(b)})')
            self.fail(f'scalar op {op}', n)
        if a.ty == 'P' and b.ty == 'P' and op in ('Add', 'Sub', 'MatMult'):
            m = {'Add': '__add__', 'Sub': '__sub__', 'MatMult': 'dot'}[op]
            return self.callfun('Point', m, [a, b], n)
        if a.ty == 'P' and num(b) and op in ('Mult', 'Div'):
            m = {'Mult': '__mul__', 'Div': '__truediv__'}[op]
            return self.callfun('Point', m, [a, Val('S', tr.S(b))], n)
        self.fail(f'binop {op} on {a.ty!r},{b.ty!r}', n)

    # ---- round 6: checked arithmetic (CHECKED)
    def parent_map(self):
        if self.parents is None:
            self.parents = {}
            for x in ast.walk(self.fd):
                for c in ast.iter_child_nodes(x): self.parents[c] = x
        return self.parents

    def bound_once(self, name):
        """is `name` a local variable of the function being translated that is bound exactly once, by a plain assignment (not a parameter,
        not a loop / comprehension variable, no augmented assignment)?"""
        if name in [a.arg for a in self.fd.args.args]: return False
        stores = [x for x in ast.walk(self.fd) if isinstance(x, ast.Name) and x.id == name and isinstance(x.ctx, (ast.Store, ast.Del))]
        if len(stores) != 1: return False
        pa = self.parent_map().get(stores[0])
        return isinstance(pa, ast.Assign) and pa.targets == [stores[0]]

    def guarded_divisor(self, n):
        """n: a `a / d` node.  True when d is a local variable bound exactly once and the division stands in the TRUE branch of an enclosing
        `if d != 0`, `if d != 0.0`, `if d > 0.0`, `if 0.0 < d` (the test alone, not part of an and / or): there d is not zero"""
        d = n.right
        if not (isinstance(d, ast.Name) and self.bound_once(d.id)): return False
        def zero(x): return isinstance(x, ast.Constant) and type(x.value) in (int, float) and x.value == 0
        def is_d(x): return isinstance(x, ast.Name) and x.id == d.id
        pm = self.parent_map()
        child, pa = n, pm.get(n)
        while pa is not None:
            if isinstance(pa, ast.If) and any(child is b for b in pa.body):
                t = pa.test
                if isinstance(t, ast.Compare) and len(t.ops) == 1:
                    l, o, r = t.left, t.ops[0], t.comparators[0]
                    if (is_d(l) and zero(r) and isinstance(o, (ast.NotEq, ast.Gt))) or (zero(l) and is_d(r) and isinstance(o, (ast.NotEq, ast.Lt))): return True
            if isinstance(pa, (ast.FunctionDef, ast.Lambda)) and pa is not self.fd: return False
            child, pa = pa, pm.get(pa)
        return False

    def checked_divisor(self, b, n):
        """the divisor of a `/` in a CHECKED function: itself when it cannot be zero (a non-zero literal, a guarded variable), else the
        value after the test that raises ZeroDivisionError on zero (bound to a name first when it is not atomic)"""
        tr = self.tr
        if b.ty == 'I':
            if b.const != 0: return b
        elif b.ty == 'S' and isinstance(b.const, tuple) and b.const[0] == 'pyfloat':
            if b.const[1] != 0: return b
        elif isinstance(n, ast.BinOp) and self.guarded_divisor(n): return b
        if isinstance(b.ty, tuple) and b.ty[0] == 'O': self.fail('division by a value that may be None', n)
        tx = tr.S(b)
        if not tr.atomic(Val('S', tx)) and not (b.ty == 'I'):
            nm = self.fresh('d')
            self.push_effect({'effects': set(), 'what': 'divisor', 'kind': 'let', 'text': tx, 'pat': nm}, n)
            tx = nm
        self.push_effect({'effects': {'exc'}, 'what': 'division (ZeroDivisionError)', 'kind': 'zdiv', 'text': tx, 'pat': None}, n)
        return Val('S', tx)

    def nonneg_running_max(self, name):
        """is `name` a local variable that can only hold a non-negative float (or NaN never: it is never assigned one)?  Every binding of it
        in the function must be `name = <non-negative float literal>` or `name = y` as the only use of the name in the body of
        `if y > name:` / `if name < y:` (y a plain name): by induction the value is >= 0 (a NaN y fails the test)"""
        if name in [a.arg for a in self.fd.args.args]: return False
        pm = self.parent_map()
        stores = [x for x in ast.walk(self.fd) if isinstance(x, ast.Name) and x.id == name and isinstance(x.ctx, (ast.Store, ast.Del))]
        if not stores: return False
        for st in stores:
            pa = pm.get(st)
            if not (isinstance(pa, ast.Assign) and pa.targets == [st]): return False
            v = pa.value
            if isinstance(v, ast.Constant) and type(v.value) is float and v.value >= 0: continue
            if not isinstance(v, ast.Name): return False
            iff = pm.get(pa)
            if not (isinstance(iff, ast.If) and any(pa is b for b in iff.body) and isinstance(iff.test, ast.Compare) and len(iff.test.ops) == 1): return False
            l, o, r = iff.test.left, iff.test.ops[0], iff.test.comparators[0]
            def nm(x, i): return isinstance(x, ast.Name) and x.id == i
            if not ((nm(l, v.id) and isinstance(o, ast.Gt) and nm(r, name)) or (nm(l, name) and isinstance(o, ast.Lt) and nm(r, v.id))): return False
            if v.id == name: return False
        return True

    def checked_sqrt(self, arg_node, a, n):
        tr = self.tr
        if isinstance(arg_node, ast.Name) and self.nonneg_running_max(arg_node.id): return Val('S', f'(sqrt_ O {tr.S(a)})')
        nm = self.fresh('s')
        self.push_effect({'effects': {'exc'}, 'what': 'math.sqrt (ValueError)', 'kind': 'sqrtneg', 'text': tr.S(a), 'pat': nm}, n)
        return Val('S', f'(sqrt_ O {nm})')

    def is_list(self, v): return (isinstance(v.ty, tuple) and v.ty[0] == 'L' and v.tx is not None) or v.ty == 'FL'
    def is_optlist(self, v): return (v.ty == 'K' and v.const is None) or (isinstance(v.ty, tuple) and v.ty[0] == 'O' and isinstance(v.ty[1], tuple) and v.ty[1][0] == 'L' and v.tx is not None)

    def list_concat(self, a, b, n):
        tr = self.tr
        parts = []
        for x in (a, b):
            if x.ty == 'K':
                self.push_effect({'effects': {'exc'}, 'what': 'None + list (TypeError)', 'kind': 'raise', 'text': 'PyTypeError', 'pat': None}, n)
                parts.append(Val(('L', '?'), '[]'))
            elif self.is_optlist(x):
                z = self.fresh('z')
                self.push_effect({'effects': {'exc'}, 'what': 'list + a value that may be None (TypeError)', 'kind': 'nonelist', 'text': x.tx, 'pat': z}, n)
                parts.append(Val(x.ty[1], z))
            else: parts.append(Val(tr.rtype(x), tr.text(x)))
        t = tmatch(parts[0].ty, parts[1].ty)
        if t is None: self.fail(f'concatenation of {parts[0].ty!r} and {parts[1].ty!r}', n)
        return Val(t, f'({parts[0].tx} ++ {parts[1].tx})')

    def keyeq(self, kt, n=None):
        if kt not in KEYEQ: self.fail(f'a dict keyed by {kt!r} (no key equality declared)', n)
        if kt == 'P' or kt == ('T', ('P', 'P')): self.dict_key_P(n)
        return KEYEQ[kt]

    def dict_key_P(self, n):
        """round 4: a dict keyed by Point VALUES.  CPython finds a stored key iff the hashes are equal and (the objects are identical or
        stored.__eq__(new)).  The model: the keys handed to the dict are always fresh objects (never identical to a stored one);
        Point.__hash__ must be `hash(self.x) << 32 ^ hash(self.y)` -- hashes of floats are equal iff the floats are (0.0 and -0.0
        alike; a NaN hashes by identity, so it equals nothing), and the combination of the two coordinate hashes is ASSUMED injective
        on the pairs that occur (as Hand/Winding.v does) -- so two keys collide iff their coordinates are equal floats and
        Point.__eq__ holds: point_keyeq of the prelude of Gen/Winding.v."""
        try: path, fd, defcls = find_def('Point', '__hash__')
        except KeyError: self.fail('Point has no __hash__', n)
        want = ast.dump(ast.parse('hash(self.x) << 32 ^ hash(self.y)', mode='eval').body)
        body = [b for b in fd.body if not (isinstance(b, ast.Expr) and isinstance(b.value, ast.Constant))]
        if not (len(body) == 1 and isinstance(body[0], ast.Return) and ast.dump(body[0].value) == want and [a.arg for a in fd.args.args] == ['self']):
            self.fail('Point.__hash__ is not the one the model of dict lookup was written for', n)
        self.tr.fingerprints[f'{path}:{defcls}.__hash__'] = fingerprint(fd)
        self.tr.function('Point', '__eq__')

    def compare(self, op, a, b, n):
        tr = self.tr
        if self.trial > 0 and '?' in (a.ty, b.ty) and op in ('Lt', 'LtE', 'Gt', 'GtE', 'Eq', 'NotEq'): return Val('B', '_')      # round 4 (see truth)
        if op in ('In', 'NotIn'):
            if not (isinstance(b.ty, tuple) and b.ty[0] == 'DICT' and b.tx is not None): self.fail(f'membership in {b.ty!r}', n)
            kt = tmatch(b.ty[1], tr.rtype(a))
            if kt is None or kt == '?': self.fail(f'a {tr.rtype(a)!r} looked up in a dict keyed by {b.ty[1]!r}', n)
            t = f'(dict_mem {self.keyeq(kt, n)} {b.tx} {tr.text(a)})'
            return Val('B', t if op == 'In' else f'(negb {t})')
        if a.ty == 'K' or b.ty == 'K':
            if a.ty == 'K' and b.ty == 'K':
                if op in ('Eq', 'Is'): return Val('K', const=a.const == b.const)
                if op in ('NotEq', 'IsNot'): return Val('K', const=a.const != b.const)
            k, o = (a, b) if a.ty == 'K' else (b, a)
            if k.const is None and op in ('Is', 'IsNot', 'Eq', 'NotEq'):
                if isinstance(o.ty, tuple) and o.ty[0] == 'O':
                    t = f'(match {o.tx} with None => true | Some _ => false end)'
                    return Val('B', t if op in ('Is', 'Eq') else f'(negb {t})')
                return Val('K', const=op in ('IsNot', 'NotEq'))
            if isinstance(k.const, tuple) and k.const[0] in ('localfun', 'cellref') and op in ('Is', 'IsNot') \
                    and isinstance(o.ty, tuple) and o.ty == tr.rtype(k):
                # which of the two local functions / deques a run-time reference is
                t = o.tx if tr.text(k) == 'true' else f'(negb {o.tx})'
                return Val('B', t if op == 'Is' else f'(negb {t})')
            if isinstance(k.const, str) and o.ty == 'NT' and op in ('Eq', 'NotEq'):
                # node.type == "offcurve": only against the three literals of NODE_TYPES
                if k.const not in NODE_TYPES: self.fail(f'a node type compared with the string {k.const!r}', n)
                t = f'(nodetype_eqb {o.tx} {NODE_TYPES[k.const]})'
                return Val('B', t if op == 'Eq' else f'(negb {t})')
            self.fail(f'comparison with constant {k.const!r}', n)
        pyop = {'Lt': lambda x, y: x < y, 'LtE': lambda x, y: x <= y, 'Gt': lambda x, y: x > y, 'GtE': lambda x, y: x >= y,
                'Eq': lambda x, y: x == y, 'NotEq': lambda x, y: x != y}
        if {a.ty, b.ty} == {'SEGLEN', 'I'} and op in pyop:
            # len(seg) against a literal, seg one of the three classes: decided by the constructor
            sl = a if a.ty == 'SEGLEN' else b
            res = [pyop[op](SEGN[t], b.const) if a.ty == 'SEGLEN' else pyop[op](a.const, SEGN[t]) for _, t in SEGSUM]
            if len(set(res)) == 1: return Val('K', const=res[0])
            return Val('B', f'(match {sl.tx} with ' + ' | '.join(f'{c} _ => {"true" if r else "false"}' for (c, _), r in zip(SEGSUM, res)) + ' end)')
        zi = ('Z', 'I', 'LEN') if self.zint else ('Z', 'I')      # round 6 (ZINT): len(l) compared with ints
        if ('Z' in (a.ty, b.ty) or (self.zint and 'LEN' in (a.ty, b.ty))) and a.ty in zi and b.ty in zi and op in pyop:
            x, y = self.Zt(a), self.Zt(b)
            t = {'Lt': f'({x} <? {y})%Z', 'LtE': f'({x} <=? {y})%Z', 'Gt': f'({y} <? {x})%Z', 'GtE': f'({y} <=? {x})%Z',
                 'Eq': f'({x} =? {y})%Z', 'NotEq': f'(negb ({x} =? {y})%Z)'}[op]
            return Val('B', t)
        if a.ty == 'I' and b.ty == 'I':
            x, y = a.const, b.const
            return Val('K', const={'Lt': x < y, 'LtE': x <= y, 'Gt': x > y, 'GtE': x >= y, 'Eq': x == y, 'NotEq': x != y}[op])
        if a.ty in ('S', 'I') and b.ty in ('S', 'I'):
            x, y = tr.S(a), tr.S(b)
            t = {'Lt': f'(ltb O {x} {y})', 'LtE': f'(leb O {x} {y})', 'Gt': f'(ltb O {y} {x})', 'GtE': f'(leb O {y} {x})',
                 'Eq': f'(eqb O {x} {y})', 'NotEq': f'(neqb O {x} {y})'}.get(op)
            if t: return Val('B', t)
        if 'XS' in (a.ty, b.ty):
            # round 7: the only thing done with a float that may be +infinity: <float> < it (it > <float>)
            if op == 'Lt' and b.ty == 'XS' and a.ty in ('S', 'I'): return Val('B', f'(ltb_xinf O {tr.S(a)} {b.tx})')
            if op == 'Gt' and a.ty == 'XS' and b.ty in ('S', 'I'): return Val('B', f'(ltb_xinf O {tr.S(b)} {a.tx})')
            self.fail(f'compare {op} on {a.ty!r},{b.ty!r} (a float that started as float("inf") may only stand on the greater side of < / >)', n)
        if a.ty == 'SHAPE' and b.ty == 'SHAPE' and op in ('Eq', 'NotEq', 'Is', 'IsNot'):
            # two of the objects handed to the sweep: identity (see 'SHAPE')
            t = f'(shape_eqb {a.tx} {b.tx})'
            return Val('B', t if op in ('Eq', 'Is') else f'(negb {t})')
        if isinstance(a.ty, tuple) and a.ty[0] in ('FN', 'RF') and a.ty == b.ty and op in ('Is', 'IsNot'):
            t = f'(Bool.eqb {a.tx} {b.tx})'
            return Val('B', t if op == 'Is' else f'(negb {t})')
        if a.ty == 'P' and b.ty == 'P' and op in ('Eq', 'NotEq'):
            e = self.callfun('Point', '__eq__', [a, b], n)
            return e if op == 'Eq' else Val('B', f'(negb {e.tx})')
        if self.key in CLIP_FUNS and op in ('Eq', 'NotEq') and (a.ty == 'SEG' or a.ty in SEGN) and (b.ty == 'SEG' or b.ty in SEGN):
            # round 6: Segment.__eq__ (Segment.__ne__ is its negation), dispatched on the classes of both segments
            path, fdn, dc = find_def('Line', '__ne__')
            want = ast.parse('def __ne__(self, other):\n    return not self.__eq__(other)').body[0]
            if ast.dump(fdn) != ast.dump(want): self.fail('Segment.__ne__ is not the negation of __eq__', n)
            def arms(x, f):
                if x.ty in SEGN: return f(x)
                return '(match ' + x.tx + ' with ' + ' | '.join(f'{con} {nm} => {f(Val(t, nm))}' for (con, t), nm in zip(SEGSUM, ('sa_', 'sb_', 'sc_'))) + ' end)'
            def inner(x):
                def g(y): return tr.text(self.callfun(CLASS_OF[x.ty], '__eq__', [x, y], n, (('ty', y.ty),)))
                if b.ty in SEGN: return g(b)
                return '(match ' + b.tx + ' with ' + ' | '.join(f'{con} {nm} => {g(Val(t, nm))}' for (con, t), nm in zip(SEGSUM, ('ta_', 'tb_', 'tc_'))) + ' end)'
            t = arms(a, inner)
            return Val('B', t if op == 'Eq' else f'(negb {t})')
        self.fail(f'compare {op} on {a.ty!r},{b.ty!r}', n)

    def Zt(self, v):
        """text of a Python int (a literal or a run-time 'Z') as a Coq Z"""
        if v.ty == 'I': return f'({v.const})%Z'
        if v.ty == 'Z': return v.tx
        if v.ty == 'LEN': return f'(Z.of_nat (length {v.tx}))'      # round 5: len(l) of a dynamic list
        self.fail(f'expected an int, got {v.ty!r}')

    def unify(self, a, b, n):
        """coerce two branch results to a common runtime type; returns (texta, textb, type)"""
        tr = self.tr
        if {a.ty, b.ty} == {'I', 'Z'}: return (self.Zt(a), self.Zt(b), 'Z')
        if a.ty == 'TUP' and isinstance(b.ty, tuple) and b.ty[0] == 'T' and len(b.ty[1]) == len(a.items) and b.tx is not None and self.tr.atomic(b):
            b = Val('TUP', items=self.tuple_items(b))       # round 4
        if b.ty == 'TUP' and isinstance(a.ty, tuple) and a.ty[0] == 'T' and len(a.ty[1]) == len(b.items) and a.tx is not None and self.tr.atomic(a):
            a = Val('TUP', items=self.tuple_items(a))
        if a.ty == 'TUP' and b.ty == 'TUP' and len(a.items) == len(b.items):
            us = [self.unify(x, y, n) for x, y in zip(a.items, b.items)]
            return ('(' + ', '.join(u[0] for u in us) + ')', '(' + ', '.join(u[1] for u in us) + ')', ('T', tuple(u[2] for u in us)))
        isbool = lambda v: v.ty == 'B' or (v.ty == 'K' and isinstance(v.const, bool))
        if isbool(a) and isbool(b): return (tr.text(a), tr.text(b), 'B')
        isnone = lambda v: v.ty == 'K' and (v.const is None or v.const is False)
        if isnone(a) and isnone(b): self.fail('both branches None', n)
        if isnone(a) or isnone(b):
            o = b if isnone(a) else a
            oty = tr.rtype(o)
            if isinstance(oty, tuple) and oty[0] == 'O':
                return ('None' if isnone(a) else tr.text(a), 'None' if isnone(b) else tr.text(b), oty)
            s = f'(Some ({tr.text(o)}))'
            return ('None' if isnone(a) else s, 'None' if isnone(b) else s, ('O', oty))
        if a.ty == 'FL' and not a.items and not (b.ty == 'FL' and not b.items):
            tb = tr.rtype(b)
            if isinstance(tb, tuple) and tb[0] == 'L': return ('[]', tr.text(b), tb)
        if b.ty == 'FL' and not b.items and not (a.ty == 'FL' and not a.items):
            ta = tr.rtype(a)
            if isinstance(ta, tuple) and ta[0] == 'L': return (tr.text(a), '[]', ta)
        if a.ty == 'FL' and not a.items and b.ty == 'FL' and not b.items:
            return ('[]', '[]', ('L', '?'))
        ta, tb = tr.rtype(a), tr.rtype(b)
        if tmatch(ta, tb) is not None: return (tr.text(a), tr.text(b), tmatch(ta, tb))
        if {ta, tb} == {'XS', 'S'}:      # round 7: a finite float where the other branch keeps a float that may be +infinity
            return (tr.text(a) if ta == 'XS' else f'(Some {tr.S(a)})', tr.text(b) if tb == 'XS' else f'(Some {tr.S(b)})', 'XS')
        for x, y in ((ta, tb), (tb, ta)):
            if isinstance(x, tuple) and x[0] == 'O' and x[1] == y:
                return (tr.text(a) if ta == x else f'(Some ({tr.text(a)}))', tr.text(b) if tb == x else f'(Some ({tr.text(b)}))', x)
        for x, y in ((ta, tb), (tb, ta)):
            if isinstance(x, tuple) and x[0] == 'O' and x[1] == '?' and not (isinstance(y, tuple) and y[0] == 'O') and y != '?':      # round 4
                return (tr.text(a) if ta == x else f'(Some ({tr.text(a)}))', tr.text(b) if tb == x else f'(Some ({tr.text(b)}))', ('O', y))
        for x, y in ((ta, tb), (tb, ta)):
            # round 5: a variable that may be unbound, assigned on one side only
            if isinstance(x, tuple) and x[0] == 'U' and not (isinstance(y, tuple) and y[0] == 'U') and y != '?' and tmatch(x[1], y) is not None:
                return (tr.text(a) if ta == x else f'(Some ({tr.text(a)}))', tr.text(b) if tb == x else f'(Some ({tr.text(b)}))', ('U', tmatch(x[1], y)))
        if a.ty == 'FL' and not a.items and isinstance(tb, tuple) and tb[0] == 'L': return ('[]', tr.text(b), tb)
        if b.ty == 'FL' and not b.items and isinstance(ta, tuple) and ta[0] == 'L': return (tr.text(a), '[]', ta)
        self.fail(f'branches of different types {ta!r} / {tb!r}', n)

    def join(self, c, a, b, n):
        if a.ty == 'FL' and not a.items and b.ty == 'FL' and not b.items: return a
        x, y, t = self.unify(a, b, n)
        return Val(t, f'(if {c.tx} then {x} else {y})')

    def attribute(self, n, env):
        tr = self.tr
        # math.pi, sys.float_info.epsilon
        if isinstance(n.value, ast.Name) and n.value.id == 'math' and 'math' not in env:
            if n.attr == 'pi': return Val('S', '(pi_ O)')
            return Val('K', const=('math', n.attr))
        if isinstance(n.value, ast.Attribute) and isinstance(n.value.value, ast.Name) and n.value.value.id == 'sys' \
                and n.value.attr == 'float_info' and n.attr == 'epsilon':
            return Val('S', '(lit O 1 4503599627370496 0x1p-52%float)')
        if isinstance(n.value, ast.Name) and n.value.id == 'pyclipper':
            # round 6: the module pyclipper, an abstract parameter of the definitions (see CLIP_FUNS)
            if self.key not in CLIP_FUNS or 'pyclipper' in env or 'pyclipper' in self.localfuns \
                    or not any(isinstance(x, ast.Import) and any(a.name == 'pyclipper' and a.asname is None for a in x.names) for x in module(self.path)[1].body):
                self.fail('pyclipper', n)
            if n.attr in PYCLIPPER_CT: return Val('CT', PYCLIPPER_CT[n.attr])
            if n.attr in ('PT_CLIP', 'PT_SUBJECT', 'PFT_EVENODD', 'Pyclipper'): return Val('K', const=('pyclipper', n.attr))
            self.fail(f'pyclipper.{n.attr} (only Pyclipper, PT_CLIP, PT_SUBJECT, PFT_EVENODD and the CT_ constants are modelled)', n)
        v = self.expr(n.value, env)
        a = n.attr
        if v.ty == 'PC':
            if a in ('AddPath', 'Execute'): return Val('K', const=('pcmethod', a, v))
            self.fail(f'attribute .{a} of a Pyclipper object (only AddPath and Execute are modelled)', n)
        if v.ty == 'EDGE' and a == '_orig' and self.key in CLIP_FUNS:
            # round 6: Line.__init__ sets `_orig = None`, so every Line has the attribute: None, or the curve a flattener cut it from
            self.line_init_orig(n)
            return Val(('O', 'SEG'), f'(snd {v.tx})')
        if v.ty == 'EDGE':
            # round 5: a Line with its `_orig`; everything else is the Line's
            if a == '_orig': self.fail('reading ._orig (an AttributeError when the Line was never tagged)', n)
            v = Val('seg2', f'(fst {v.tx})')
        if v.ty == 'TSEG':
            # round 5: a segment of unknown class with its `_orig`: a method sees the whole value (Line.flatten returns the receiver, tag
            # included), attributes are the segment's
            if a == '_orig': self.fail('reading ._orig (an AttributeError when the segment was never tagged)', n)
            if all(self.has_attr(CLASS_OF[t], a) for _, t in SEGSUM) and not any('property' in decorators(find_def(CLASS_OF[t], a)[1]) for _, t in SEGSUM):
                return Val('K', const=('bounddyn', a, v))
            v = Val('SEG', f'(fst {v.tx})')
        if isinstance(v.ty, tuple) and v.ty[0] == 'RNG':
            # round 4: a curve with its `_range`; everything else is the segment's (a method that reads the range gets the whole value back)
            if a == '_range': return Val('FL', items=[Val('S', f'(rg_lo {v.tx})'), Val('S', f'(rg_hi {v.tx})')])
            if (CLASS_OF[v.ty[1]], a) in SELF_TY and SELF_TY[(CLASS_OF[v.ty[1]], a)] == v.ty:
                return Val('K', const=('bound', CLASS_OF[v.ty[1]], a, v))
            v = Val(v.ty[1], f'(rg_seg {v.tx})')
        if isinstance(v.ty, tuple) and v.ty[0] == 'OBJ':
            # round 4: a mutable attribute (the current state), an abstracted part (a parameter), or a method
            spec = OBJECTS[v.ty[1]]
            for i, (fa, fty) in enumerate(spec['state']):
                if fa == a: return self.obj_fields(v)[fa]
            for ab, tx in zip(spec['abstract'], v.ty[2]):
                if ab[0] == 'len' and ab[1] == a: return Val('LENOF', tx)
                if ab[0] == 'method' and ab[1] == a: return Val('K', const=('absmethod', ab, tx))
            try: find_def(v.ty[1], a)
            except KeyError: self.fail(f'attribute .{a} of a {v.ty[1]} is not modelled', n)
            return Val('K', const=('bound', v.ty[1], a, v))
        if v.ty in SEGN and a == '_range':
            # round 4: of a segment as its constructor made it
            lo, hi = self.whole_range(v.ty, n)
            return Val('FL', items=[lo, hi])
        if v.ty == ('O', 'BB') and 'exc' in self.effects:
            # round 4: a BoundingBox whose corners may still be None, used as a box: None is an AttributeError / TypeError inside
            v = self.unbox(v, n)
        if v.ty == 'K' and isinstance(v.const, tuple) and v.const[0] == 'py':
            # round 4: a translation-time Python value (see PY_PURE)
            obj = v.const[1]
            if (type(obj).__name__, a) in PY_PURE_METHODS: return Val('K', const=('pymethod', obj, a))
            if (type(obj).__name__, a) in PY_PURE_ATTRS:
                r = getattr(obj, a)
                if type(r) is int: return Val('I', const=r)
            self.fail(f'attribute .{a} of a translation-time {type(obj).__name__}', n)
        if v.ty == 'P':
            if a in ('x', 'y'): return Val('S', f'(p{a} {v.tx})')
            return self.property_or_method(v, a, n)
        if v.ty in SEGN:
            if a == 'points': return Val('FL', items=[Val('P', f'({p} {v.tx})') for p in SEGPROJ[v.ty]])
            if a == 'start': return Val('P', f'({SEGPROJ[v.ty][0]} {v.tx})')
            if a == 'end': return Val('P', f'({SEGPROJ[v.ty][-1]} {v.tx})')
            if a == 'order': return Val('I', const=SEGN[v.ty])
            if a == '__class__': return Val('K', const=('class', CLASS_OF[v.ty]))
            return self.property_or_method(v, a, n)
        if v.ty == 'M':
            if a == 'matrix': return v
            return self.property_or_method(v, a, n)
        if v.ty == 'BB':
            if a in ('bl', 'tr'): return Val('P', f'({a} {v.tx})')
            return self.property_or_method(v, a, n)
        if v.ty == 'UBB' and a in UNSET_BOX:
            return v.const[a] if v.const[a] is not None else Val('K', const=None)
        if v.ty in RECORDS:
            for fa, fty, proj in RECORDS[v.ty][2]:
                if fa == a: return Val(fty, f'({proj} {v.tx})')
            return self.property_or_method(v, a, n)
        if v.ty == 'UOBJ':
            if v.const['fields'].get(a) is None: self.fail(f'attribute .{a} read before __init__ has set it', n)
            return v.const['fields'][a]
        if v.ty == 'SHAPE':
            if a == 'bounds': return Val('K', const=('shapebounds', v))
            self.fail(f'attribute .{a} of a shape (only .bounds() is modelled)', n)
        if v.ty == 'PCLOSED':
            if a == 'closed': return Val('B', v.tx)
            self.fail(f'attribute .{a} of a path known only through .closed', n)
        if v.ty == 'PATH':
            if a == 'asSegments':
                self.tr.fingerprints['path/__init__.py:BezierPath.asSegments'] = fingerprint(find_def('BezierPath', 'asSegments')[1])
                return Val('K', const=('asSegments', v))
            return self.property_or_method(v, a, n)
        if isinstance(v.ty, tuple) and v.ty[0] == 'PATHC':
            # round 5: a path as (segments, closed)
            segs, closed = self.pathc_parts(v)
            if a == 'asSegments':
                self.tr.fingerprints['path/__init__.py:BezierPath.asSegments'] = fingerprint(find_def('BezierPath', 'asSegments')[1])
                return Val('K', const=('asSegments', segs))
            if a == 'closed':
                self.path_init_closed(n)
                return closed
            try: path, fd, defcls = find_def('BezierPath', a)
            except KeyError: self.fail(f'BezierPath has no attribute {a} in the model', n)
            if 'property' in decorators(fd): return self.callfun('BezierPath', a, [v], n)
            return Val('K', const=('bound', 'BezierPath', a, v))
        if v.ty == 'SEG':
            kinds = {('property' in decorators(find_def(CLASS_OF[t], a)[1])) for _, t in SEGSUM if self.has_attr(CLASS_OF[t], a)}
            if len(kinds) != 1 or not all(self.has_attr(CLASS_OF[t], a) for _, t in SEGSUM): self.fail(f'attribute .{a} is not the same kind of thing in the three classes of segment', n)
            if kinds == {True}:
                sp = self.seg_property(v, a, n)      # round 5
                if sp is not None: return sp
                return self.seg_dispatch(v, lambda c, sv: self.callfun(c, a, [sv], n), n)
            return Val('K', const=('bounddyn', a, v))
        if v.ty == 'IXS':
            if a == 'seg1': return Val('SEG', f'(fst {v.tx})')
            if a == 't1': return Val('S', f'(fst (fst (snd {v.tx})))')
            if a == 'point': return Val('P', f'(snd (fst (snd {v.tx})))')
            if a == 't2': return Val('S', f'(snd (snd {v.tx}))')
        if v.ty == 'IXSS':      # round 5
            if a == 'seg1': return Val('SEG', f'(fst (fst {v.tx}))')
            if a == 'seg2': return Val('SEG', f'(snd (fst {v.tx}))')
            if a == 't1': return Val('S', f'(fst (fst (snd {v.tx})))')
            if a == 'point': return Val('P', f'(snd (fst (snd {v.tx})))')
            if a == 't2': return Val('S', f'(snd (snd {v.tx}))')
        if isinstance(v.ty, tuple) and v.ty[0] == 'DICT' and a == 'values' and v.tx is not None:
            return Val('K', const=('dictvalues', v))
        if v.ty == 'IX':
            if a == 't1': return Val('S', f'(fst (fst {v.tx}))')
            if a == 'point': return Val('P', f'(snd (fst {v.tx}))')
            if a == 't2': return Val('S', f'(snd {v.tx})')
        if v.ty == 'K' and isinstance(v.const, tuple) and v.const[0] == 'class':
            return Val('K', const=('classattr', v.const[1], a))
        if v.ty == 'CDF':
            if a == 'bez1': return v.items[0]
            if a == 'bez2': return v.items[1]
            if a in ('D', 'S'): return Val('K', const=('cdfmethod', a, v))
        self.fail(f'attribute .{a} of {v.ty!r}', n)

    def line_init_orig(self, n):
        """round 6: Line.__init__ must contain the statement `self._orig = None` at its top level, and no method other than the three
        `flatten`s and Line.__init__ may store to an attribute `_orig`"""
        path, fd, defcls = find_def('Line', '__init__')
        me = fd.args.args[0].arg
        want = ast.dump(ast.parse(f'{me}._orig = None').body[0])
        if not any(ast.dump(st) == want for st in fd.body): self.fail('Line.__init__ does not set `_orig = None`', n)
        self.tr.fingerprints[f'{path}:{defcls}.__init__'] = fingerprint(fd)
        for k, mp in MODULE_OF_CLASS.items():
            for x in ast.walk(module(mp)[1]):
                if isinstance(x, ast.FunctionDef):
                    for y in ast.walk(x):
                        if isinstance(y, ast.Attribute) and y.attr == '_orig' and isinstance(y.ctx, (ast.Store, ast.Del)) and x.name not in ('flatten', '__init__'):
                            self.fail(f'{mp}:{y.lineno}: _orig is set in {x.name}', n)

    def untagged_segment(self, node):
        """round 6: is the segment denoted by `node` -- a loop variable over X, X bound once to V.asSegments(), every binding of the path V the
        result of a `.clone()` -- an object whose `_orig` is None?  BezierPath.clone makes fresh segments (Segment.clone: klass(..), and
        Line.__init__ sets _orig = None); splitAtPoints, the only thing done to V, keeps them or cuts them with splitAtTime (fresh ones); only
        the flatteners store another `_orig` (line_init_orig)."""
        if not isinstance(node, ast.Name): return False
        pm = self.parent_map()
        # the innermost enclosing `for <node.id> in <X>` whose body does not rebind the variable
        lp, c_ = None, node
        while pm.get(c_) is not None:
            c_ = pm[c_]
            if isinstance(c_, ast.For) and isinstance(c_.target, ast.Name) and c_.target.id == node.id: lp = c_; break
        if lp is None or not isinstance(lp.iter, ast.Name): return False
        if any(isinstance(y, ast.Name) and y.id == node.id and isinstance(y.ctx, (ast.Store, ast.Del)) for b in lp.body for y in ast.walk(b)): return False
        X = lp.iter.id
        if not self.bound_once(X): return False
        xs = [x for x in ast.walk(self.fd) if isinstance(x, ast.Name) and x.id == X and isinstance(x.ctx, ast.Store)][0]
        v = pm[xs].value
        if not (isinstance(v, ast.Call) and isinstance(v.func, ast.Attribute) and v.func.attr == 'asSegments' and not v.args and not v.keywords and isinstance(v.func.value, ast.Name)): return False
        V = v.func.value.id
        # the statements of the function body before the one that binds X: the last binding of V among them must be a top-level `V = <e>.clone()`,
        # and V is otherwise only used there as the receiver of splitAtPoints / asSegments / clone
        body = self.fd.body
        jx = next((k for k, st in enumerate(body) if st is pm[xs]), None)
        if jx is None: return False
        last = None
        for k, st in enumerate(body[:jx]):
            for y in ast.walk(st):
                if isinstance(y, ast.Name) and y.id == V and isinstance(y.ctx, (ast.Store, ast.Del)):
                    pa = pm.get(y)
                    if not (pa is st and isinstance(pa, ast.Assign) and pa.targets == [y] and isinstance(pa.value, ast.Call) and isinstance(pa.value.func, ast.Attribute)
                            and pa.value.func.attr == 'clone' and not pa.value.args and not pa.value.keywords): return False
                    last = k
        if last is None: return False
        for st in body[last + 1:jx + 1]:
            for y in ast.walk(st):
                if isinstance(y, ast.Name) and y.id == V and isinstance(y.ctx, ast.Load):
                    pa = pm.get(y)
                    if not (isinstance(pa, ast.Attribute) and pa.attr in ('splitAtPoints', 'asSegments', 'clone')): return False
        try:
            path, fd, defcls = find_def('Line', 'clone')
            want = ast.parse('def clone(self) -> "Segment":\n    klass = self.__class__\n    return klass(*[p.clone() for p in self.points])').body[0]
            body = [b for b in fd.body if not (isinstance(b, ast.Expr) and isinstance(b.value, ast.Constant))]
            if [ast.dump(b) for b in body] != [ast.dump(b) for b in want.body]: return False
        except KeyError: return False
        self.line_init_orig(node)
        return True

    def pathc_parts(self, v):
        """round 5: the two components (segments, closed) of a ('PATHC', t) value"""
        if v.tx is None: return v.items[0], v.items[1]
        return Val(('L', v.ty[1]), f'(fst {v.tx})'), Val('B', f'(snd {v.tx})')

    def path_init_closed(self, n):
        """round 5: `closed` must be a plain attribute of BezierPath, set by `self.closed = <bool literal>` in an __init__ that is a list of
        assignments of constants to attributes; returns the literal (the flag of a path fresh from its constructor)"""
        for k in MRO['BezierPath']:
            for x in module(MODULE_OF_CLASS[k])[1].body:
                if isinstance(x, ast.ClassDef) and x.name == k:
                    for m in x.body:
                        names = [m.name] if isinstance(m, ast.FunctionDef) else [t.id for t in getattr(m, 'targets', []) if isinstance(t, ast.Name)]
                        if 'closed' in names or '__setattr__' in names or '__getattr__' in names or '__getattribute__' in names or '__slots__' in names:
                            self.fail(f'{k} defines {names[0]}: `closed` is not a plain attribute', n)
        path, fd, defcls = find_def('BezierPath', '__init__')
        me = fd.args.args[0].arg
        found = None
        if len(fd.args.args) != 1 or fd.args.vararg or fd.args.kwarg or fd.args.kwonlyargs: self.fail('BezierPath.__init__ takes arguments', n)
        for st in fd.body:
            if isinstance(st, ast.Expr) and isinstance(st.value, ast.Constant): continue
            if not (isinstance(st, ast.Assign) and len(st.targets) == 1 and isinstance(st.targets[0], ast.Attribute) and isinstance(st.targets[0].value, ast.Name)
                    and st.targets[0].value.id == me and isinstance(st.value, ast.Constant)):
                self.fail('BezierPath.__init__ is not a list of assignments of constants to attributes', n)
            if st.targets[0].attr == 'closed':
                if found is not None or type(st.value.value) is not bool: self.fail('BezierPath.__init__ does not set .closed to one bool literal', n)
                found = st.value.value
        if found is None: self.fail('BezierPath.__init__ does not set .closed', n)
        self.tr.fingerprints[f'{path}:{defcls}.__init__'] = fingerprint(fd)
        return found

    def check_fromSegments(self, n):
        """round 5: BezierPath.fromSegments must be the function the model of it was written for: a fresh path (klass() is BezierPath()) whose
        representation is SegmentRepresentation(self, array) -- which keeps the list `array` itself (or a fresh [] when it is empty)"""
        path, fd, defcls = find_def('BezierPath', 'fromSegments')
        want = ast.parse('self = klass()\nfor a in array:\n    assert isinstance(a, Segment)\nself.activeRepresentation = SegmentRepresentation(self, array)\nreturn self').body
        body = [b for b in fd.body if not (isinstance(b, ast.Expr) and isinstance(b.value, ast.Constant))]
        if [a.arg for a in fd.args.args] != ['klass', 'array'] or 'classmethod' not in decorators(fd) or fd.args.vararg or fd.args.kwarg or fd.args.kwonlyargs or fd.args.defaults \
                or [ast.dump(b) for b in body] != [ast.dump(b) for b in want]:
            self.fail('BezierPath.fromSegments is not the constructor the model was written for', n)
        self.tr.fingerprints[f'{path}:{defcls}.fromSegments'] = fingerprint(fd)
        self.tr.fingerprints['path/representations/Segment.py:SegmentRepresentation.__init__'] = fingerprint(find_def('SegmentRepresentation', '__init__')[1])
        self.tr.fingerprints['path/representations/Segment.py:SegmentRepresentation.data'] = fingerprint(find_def('SegmentRepresentation', 'data')[1])

    def fresh_list_handover(self, call, n):
        """round 5: `X = BezierPath.fromSegments(L)`: the new path KEEPS the list object L.  The model has values: it is only right when
        nothing updates or reads L afterwards.  Required: the call is the right-hand side of a statement at the top level of the
        function body, L is a local variable, and no statement after that one mentions L."""
        arg = call.args[0]
        if not isinstance(arg, ast.Name): self.fail('BezierPath.fromSegments of something that is not a local variable', n)
        idx = next((i for i, st in enumerate(self.fd.body) if isinstance(st, ast.Assign) and st.value is call), None)
        if idx is None: self.fail('BezierPath.fromSegments(..) elsewhere than as the right-hand side of a top-level assignment', n)
        if arg.id in [a.arg for a in self.fd.args.args]: self.fail(f'the list {arg.id} handed to BezierPath.fromSegments is a parameter (its owner may update it)', n)
        for st in self.fd.body[idx + 1:]:
            if any(isinstance(y, ast.Name) and y.id == arg.id for y in ast.walk(st)): self.fail(f'the list {arg.id} is used after it was handed to BezierPath.fromSegments', n)

    def loop_list_handover(self, call):
        """round 6: `BezierPath.fromSegments(L)` inside a loop body: the new path KEEPS the list object L.  Required: L is a local variable that the
        body of the enclosing `for` binds afresh (`L = []`, a top-level statement of that body), and no statement of the body after the one
        containing the call mentions L -- so nothing can update the list the path now owns."""
        arg = call.args[0]
        if not isinstance(arg, ast.Name): self.fail('BezierPath.fromSegments of something that is not a local variable', call)
        pm = self.parent_map()
        st = call
        while st is not None and not (isinstance(pm.get(st), ast.For) and st in pm[st].body): st = pm.get(st)
        if st is None: self.fail('BezierPath.fromSegments(..) of a list of mixed segments outside a loop body', call)
        body = pm[st].body
        k = body.index(st)
        fresh = [i for i, b in enumerate(body[:k]) if isinstance(b, ast.Assign) and len(b.targets) == 1 and isinstance(b.targets[0], ast.Name) and b.targets[0].id == arg.id
                 and isinstance(b.value, ast.List) and not b.value.elts]
        if not fresh: self.fail(f'the list {arg.id} handed to BezierPath.fromSegments is not bound afresh in the loop body', call)
        if any(isinstance(y, ast.Name) and y.id == arg.id for b in body[k + 1:] for y in ast.walk(b)): self.fail(f'the list {arg.id} is used after it was handed to BezierPath.fromSegments', call)
        if arg.id in [a.arg for a in self.fd.args.args]: self.fail(f'the list {arg.id} is a parameter', call)

    def obj_fields(self, v):
        """round 4: the mutable attributes of an ('OBJ', ..) value: as assigned so far, or projections of its run-time state"""
        if v.tx is None: return dict(v.const['fields'])
        st = OBJECTS[v.ty[1]]['state']
        out = {}
        for i, (fa, fty) in enumerate(st):
            t = v.tx
            if len(st) > 1:
                for _ in range(len(st) - 1 - i): t = f'(fst {t})'
                if i > 0: t = f'(snd {t})'
            out[fa] = Val(fty, t)
        return out

    def read_unbound(self, n, env):
        """round 5: a read of a local variable that may still be unbound (('U', t): first assigned inside a loop, read after it): Python raises
        UnboundLocalError when it is.  The check is made where the read stands, in evaluation order with the other operations of the
        statement that may raise; a second read in the same statement sees the value the first one found."""
        v = env[n.id]
        if isinstance(n.ctx, ast.Load) is False: self.fail(f'{n.id} (possibly unbound) is not read here', n)
        if v.tx is None: self.fail(f'{n.id} is unbound here', n)
        if n.id in self.unbound_memo and self.unbound_memo[n.id][0] == v.tx: return self.unbound_memo[n.id][1]
        if v.ty[1] == '?' and self.trial == 0: self.fail(f'{n.id} (possibly unbound) has no type yet', n)
        x = self.fresh('u')
        self.push_effect({'effects': {'exc'}, 'what': f'read of {n.id}, which may be unbound (UnboundLocalError)', 'kind': 'unbound', 'text': v.tx, 'pat': x}, n)
        r = Val(v.ty[1], x)
        self.unbound_memo[n.id] = (v.tx, r)
        return r

    def unnone(self, v, n):
        """round 4: an Optional value where Python needs the value itself (an operand of arithmetic): None is a TypeError"""
        x = self.fresh('z')
        self.push_effect({'effects': {'exc'}, 'what': 'arithmetic on a value that may be None', 'kind': 'unbox', 'text': v.tx, 'pat': x}, n)
        return Val(v.ty[1], x)

    def unbox(self, v, n):
        """round 4: an `option (bbox T)` (None = both corners unset) where Python goes on to use the corners: Raises PyNoneError on None"""
        x = self.fresh('b')
        self.push_effect({'effects': {'exc'}, 'what': 'use of a BoundingBox whose corners may be unset', 'kind': 'unbox', 'text': v.tx, 'pat': x}, n)
        return Val('BB', x)

    def whole_range(self, ty, n):
        """round 4: the `_range` of a curve as its constructor made it: read off `self._range = [<int>, <int>]` in the class's own
        __init__.  Nothing else in the library may assign the attribute, except range_assign's statement on fresh objects."""
        cls = CLASS_OF[ty]
        try: path, fd, defcls = find_def(cls, '__init__')
        except KeyError: self.fail(f'{cls} has no __init__', n)
        found = None
        for st in ast.walk(fd):
            if isinstance(st, ast.Assign) and len(st.targets) == 1 and isinstance(st.targets[0], ast.Attribute) and st.targets[0].attr == '_range':
                v = st.value
                if found is not None or not (isinstance(st.targets[0].value, ast.Name) and st.targets[0].value.id == fd.args.args[0].arg and st in fd.body
                        and isinstance(v, ast.List) and len(v.elts) == 2 and all(isinstance(e, ast.Constant) and type(e.value) is int for e in v.elts)):
                    self.fail(f'{cls}.__init__ sets _range in a way that is not modelled', n)
                found = [Val('I', const=e.value) for e in v.elts]
        if found is None: self.fail(f'{cls}.__init__ does not set _range', n)
        self.tr.fingerprints[f'{path}:{defcls}.__init__'] = fingerprint(fd)
        # every other store to the attribute, anywhere in the modelled classes, must be the statement range_assign translates
        for k, mp in MODULE_OF_CLASS.items():
            for x in ast.walk(module(mp)[1]):
                if isinstance(x, ast.FunctionDef):
                    for y in ast.walk(x):
                        stores = isinstance(y, ast.Attribute) and y.attr == '_range' and isinstance(y.ctx, (ast.Store, ast.Del))
                        inplace = isinstance(y, ast.Subscript) and isinstance(y.ctx, (ast.Store, ast.Del)) and isinstance(y.value, ast.Attribute) and y.value.attr == '_range'
                        if (stores and x.name not in ('__init__', '_curve_curve_intersections_t')) or inplace:
                            self.fail(f'{mp}:{y.lineno}: _range is updated in {x.name}', n)
        return found

    def has_attr(self, cls, a):
        try: find_def(cls, a); return True
        except KeyError: return False

    def seg_dispatch(self, v, f, n):
        """`match v with SLine s_ => f Line s_ | SQuad s_ => .. | SCubic s_ => .. end` for a value v of the sum type; results that are
        segments of the receiver's own class (or tuples of them) are injected back into the sum"""
        tr = self.tr
        def inject(t, tx):
            if t in SEGN: return 'SEG', f'({[c for c, k in SEGSUM if k == t][0]} {tx})'
            if isinstance(t, tuple) and t[0] == 'T' and any(x in SEGN for x in t[1]):
                names = [f'y{i}_' for i in range(len(t[1]))]
                pat = names[0]
                for nm in names[1:]: pat = f'({pat}, {nm})'
                parts = [inject(x, nm) for x, nm in zip(t[1], names)]
                return ('T', tuple(p[0] for p in parts)), f"(let '{pat} := {tx} in (" + ', '.join(p[1] for p in parts) + '))'
            return t, tx
        arms, tys = [], []
        for con, t in SEGSUM:
            r = self.purely(lambda: f(CLASS_OF[t], Val(t, 's_')))       # an effectful method cannot be dispatched inside an expression
            if r.ty in ('K', 'FL', 'TUP'): self.fail('dispatch on the class of a segment yields translation-time structure', n)
            ty, tx = inject(tr.rtype(r), tr.text(r))
            arms.append(f'{con} s_ => {tx}'); tys.append(ty)
        if any(t != tys[0] for t in tys): self.fail(f'the three classes of segment give different types: {tys!r}', n)
        return Val(tys[0], f'(match {v.tx} with ' + ' | '.join(arms) + ' end)')

    def seg_dispatch_x(self, scrs, f, n, what):
        """round 5: a call that depends on the classes of one or two segments of unknown class and that, for some of the classes, consumes
        fuel / may raise.  scrs: the values dispatched on ('SEG', or 'TSEG': a segment with its `_orig`); f(list of (class, value of that
        class, text of the tag or None)) -> the result for that combination of classes -- at most ONE effectful operation, the call.

            match <x0> with SLine s0_ => match <x1> with SLine s1_ => <arm> | .. end | .. end

        Every arm is lifted to the union U of the effects of the arms (a pure arm v is Some (Returns v), ..); the match is bound around
        the statement being translated like the result of one call with effects U.  All arms must have the same type."""
        import itertools
        tr = self.tr
        names = ['s_'] if len(scrs) == 1 else [f's{j}_' for j in range(len(scrs))]
        arms = []
        for combo in itertools.product(SEGSUM, repeat=len(scrs)):
            parts = []
            for (con, t), sc, nm in zip(combo, scrs, names):
                parts.append((CLASS_OF[t], Val(t, nm), f'(snd {sc.tx})' if sc.ty == 'TSEG' else None))
            mark = len(self.pending)
            r = f(parts)
            ents = self.pending[mark:]
            del self.pending[mark:]
            if r.ty == 'K' or r.tx is None and r.ty not in ('FL', 'TUP'): self.fail(f'{what}: dispatch on the class of a segment yields translation-time structure', n)
            if not ents: eff, raw = frozenset(), tr.text(r)
            elif len(ents) == 1 and ents[0]['kind'] == 'call' and ents[0]['pat'] == r.tx: eff, raw = frozenset(ents[0]['effects']), ents[0]['text']
            else: self.fail(f'{what}: more than one effectful operation in an arm of the dispatch', n)
            arms.append((combo, eff, raw, tr.rtype(r)))
        ty = arms[0][3]
        for a_ in arms[1:]:
            ty = tmatch(ty, a_[3])
            if ty is None: self.fail(f'{what}: the classes of segment give different types: {[x[3] for x in arms]!r}', n)
        U = frozenset().union(*[a_[1] for a_ in arms])
        def lift(eff, raw):
            if eff == U: return raw
            if not eff:
                if 'exc' in U: raw = f'(Returns {raw})'
                if 'fuel' in U: raw = f'(Some {raw})'
                return raw
            if eff == {'exc'}: return f'(Some {raw})'       # U = {fuel, exc}
            return f'(match {raw} with None => None | Some r_ => Some (Returns r_) end)'      # eff = {fuel}, U = {fuel, exc}
        def build(j, prefix):
            if j == len(scrs):
                a_ = next(x for x in arms if x[0] == tuple(prefix))
                return lift(a_[1], a_[2])
            sc = scrs[j]
            scr = f'(fst {sc.tx})' if sc.ty == 'TSEG' else sc.tx
            return f'(match {scr} with ' + ' | '.join(f'{con} {names[j]} => {build(j + 1, prefix + [(con, t)])}' for con, t in SEGSUM) + ' end)'
        text = build(0, [])
        if not U: return Val(ty, text)
        r = self.fresh('r')
        self.push_effect({'effects': set(U), 'what': what, 'kind': 'call', 'text': text, 'pat': r}, n)
        return Val(ty, r)

    def const_property(self, cls, a):
        """round 5: a property whose body is `return <literal>` (Segment.hasLoop: `return False`): the literal, else None"""
        path, fd, defcls = find_def(cls, a)
        body = [b for b in fd.body if not (isinstance(b, ast.Expr) and isinstance(b.value, ast.Constant))]
        if 'property' in decorators(fd) and len(body) == 1 and isinstance(body[0], ast.Return) and isinstance(body[0].value, ast.Constant) \
                and (body[0].value.value is None or type(body[0].value.value) is bool) and len(fd.args.args) == 1:
            self.tr.fingerprints[f'{path}:{defcls}.{a}'] = fingerprint(fd)
            return Val('K', const=body[0].value.value)
        return None

    def seg_property(self, v, a, n):
        """round 5: a property of a segment of unknown class that is the constant False / None for some of the classes and an Optional
        value for the others (hasLoop): None where it is the constant"""
        tr = self.tr
        consts = {t: self.const_property(CLASS_OF[t], a) for _, t in SEGSUM}
        if not any(c is not None for c in consts.values()): return None
        arms, ty = [], None
        for con, t in SEGSUM:
            if consts[t] is not None:
                if consts[t].const not in (None, False): self.fail(f'.{a} is the constant {consts[t].const!r} for a {CLASS_OF[t]}', n)
                arms.append(f'{con} s_ => None'); continue
            r = self.purely(lambda: self.callfun(CLASS_OF[t], a, [Val(t, 's_')], n))
            rt = tr.rtype(r)
            if not (isinstance(rt, tuple) and rt[0] == 'O'): self.fail(f'.{a} is a constant for some classes of segment and a {rt!r} for a {CLASS_OF[t]}', n)
            ty = rt if ty is None else tmatch(ty, rt)
            if ty is None: self.fail(f'.{a}: the classes of segment give different types', n)
            arms.append(f'{con} s_ => {tr.text(r)}')
        if ty is None: self.fail(f'.{a} is a constant for every class of segment', n)
        return Val(ty, f'(match {v.tx} with ' + ' | '.join(arms) + ' end)')

    def property_or_method(self, v, a, n):
        cls = CLASS_OF[v.ty]
        try:
            path, fd, defcls = find_def(cls, a)
        except KeyError:
            self.fail(f'{cls} has no attribute {a}', n)
        if 'property' in decorators(fd):
            return self.callfun(cls, a, [v], n)
        return Val('K', const=('bound', cls, a, v))

    def subscript(self, n, env):
        v = self.expr(n.value, env)
        def dynlist(v): return isinstance(v.ty, tuple) and v.ty[0] == 'L' and v.ty[1] != '?' and v.tx is not None
        if isinstance(n.slice, ast.Slice):
            sl = n.slice
            if dynlist(v) and sl.lower is None and sl.step is None and sl.upper is not None:
                k = self.expr(sl.upper, env)
                if k.ty == 'S' and k.const == 'int': return Val(v.ty, f'(py_slice_to O {v.tx} {k.tx})')     # l[:k], k a Python int
                if k.ty == 'Z': return Val(v.ty, f'(py_slice_to_Z {v.tx} {k.tx})')                          # l[:k], k a run-time int (never raises)
            if dynlist(v) and sl.upper is None and sl.step is None and sl.lower is not None:
                k = self.expr(sl.lower, env)
                if k.ty == 'Z': return Val(v.ty, f'(py_slice_from_Z {v.tx} {k.tx})')                        # l[k:]
            self.fail('slice', n)
        i = self.expr(n.slice, env)
        if dynlist(v) and i.ty == 'S' and i.const == 'int' and 'exc' in self.effects:
            x = self.fresh('x')
            self.push_effect({'effects': {'exc'}, 'what': 'indexing by a computed int (IndexError)', 'kind': 'index', 'text': f'{v.tx} {i.tx}', 'pat': x}, n)
            return Val(v.ty[1], x)
        if dynlist(v) and i.ty == 'Z' and 'exc' in self.effects:
            x = self.fresh('x')
            self.push_effect({'effects': {'exc'}, 'what': 'indexing by a run-time int (IndexError)', 'kind': 'indexZ', 'text': f'{v.tx} {i.tx}', 'pat': x}, n)
            return Val(v.ty[1], x)
        if v.ty == 'EDGE' and i.ty == 'I' and self.key in CLIP_FUNS:      # round 6: a Line with its `_orig`: the Line's points
            v = Val('seg2', f'(fst {v.tx})')
        if v.ty == 'SEG' and i.ty == 'I':
            # seg[k], seg of any of the three classes (Segment.__getitem__ is self.points[k]): only the indices all three have
            if i.const not in (0, 1, -1): self.fail(f'index {i.const} of a segment whose class is not known', n)
            self.tr.fingerprints['segment.py:Segment.__getitem__'] = fingerprint(find_def('Line', '__getitem__')[1])
            return self.seg_dispatch(v, lambda c, sv: Val('P', f'({SEGPROJ[sv.ty][i.const]} {sv.tx})'), n)
        if v.ty in SEGN and i.ty == 'I':
            k = i.const if i.const >= 0 else i.const + SEGN[v.ty]
            if not 0 <= k < SEGN[v.ty]: self.fail('segment index out of range', n)
            return Val('P', f'({SEGPROJ[v.ty][k]} {v.tx})')
        if v.ty in ('FL', 'TUP') and i.ty == 'I':
            try: return v.items[i.const]
            except IndexError: self.fail('index out of range', n)
        if v.ty == 'M' and i.ty == 'I':
            r = i.const
            return Val('FL', items=[Val('S', f'(m{r}{c} {v.tx})') for c in range(3)])
        if isinstance(v.ty, tuple) and v.ty[0] == 'L' and v.ty[1] != '?' and i.ty == 'I' and v.tx is not None:
            # a dynamic list indexed by a literal: l[0] where l is known to be h :: t, and l[-1] (IndexError when l is empty)
            if i.const == 0 and isinstance(v.const, tuple) and v.const[0] == 'cons': return Val(v.ty[1], v.const[1])
            if i.const == -1 and isinstance(v.const, tuple) and v.const[0] == 'lastis': return Val(v.ty[1], v.const[1])      # round 6: under `len(l) == 0 or ..`
            if i.const == -1:
                x = self.fresh('x')
                self.push_effect({'effects': {'exc'}, 'what': 'indexing [-1] (IndexError)', 'kind': 'last', 'text': v.tx, 'pat': x}, n)
                return Val(v.ty[1], x)
            if i.const == 0 and 'exc' in self.effects:
                x = self.fresh('x')
                self.push_effect({'effects': {'exc'}, 'what': 'indexing [0] (IndexError)', 'kind': 'head', 'text': v.tx, 'pat': x}, n)
                return Val(v.ty[1], x)
            if 'exc' in self.effects and self.zint:
                # round 6: any other literal index, as py_index_Z (a negative one counts from the end)
                x = self.fresh('x')
                self.push_effect({'effects': {'exc'}, 'what': 'indexing by a literal (IndexError)', 'kind': 'indexZ', 'text': f'{v.tx} ({i.const})%Z', 'pat': x}, n)
                return Val(v.ty[1], x)
            self.fail(f'index {i.const} of a list not known to be long enough', n)
        if isinstance(v.ty, tuple) and v.ty[0] == 'T' and i.ty == 'I':
            k, nn = i.const, len(v.ty[1])
            if k < 0: k += nn
            t = v.tx
            for _ in range(nn - 1 - k): t = f'(fst {t})'
            if k > 0: t = f'(snd {t})'
            return Val(v.ty[1][k], t)
        self.fail(f'subscript of {v.ty!r} by {i.ty!r}', n)

    def listcomp2(self, n, env):
        """round 5: [e for x in l1 for y in l2], l1 and l2 dynamic lists that do not depend on x, no conditions, e pure: the items in the
        order Python produces them, flat_map (fun x => map (fun y => e) l2) l1"""
        g1, g2 = n.generators
        if g1.ifs or g2.ifs or g1.is_async or g2.is_async or not isinstance(g1.target, ast.Name) or not isinstance(g2.target, ast.Name) or g1.target.id == g2.target.id:
            self.fail('comprehension with two generators: only plain names, no conditions', n)
        x, y = g1.target.id, g2.target.id
        if any(isinstance(z, ast.Name) and z.id == x for z in ast.walk(g2.iter)): self.fail('the second generator depends on the first', n)
        l1, l2 = self.expr(g1.iter, env), self.purely(lambda: self.expr(g2.iter, env))
        for l in (l1, l2):
            if not (isinstance(l.ty, tuple) and l.ty[0] == 'L' and l.ty[1] != '?' and l.tx is not None): self.fail(f'comprehension with two generators over {l.ty!r}', n)
        e2 = dict(env); e2[x] = Val(l1.ty[1], 'v_' + x); e2[y] = Val(l2.ty[1], 'v_' + y)
        el = self.purely(lambda: self.expr(n.elt, e2))
        if el.ty in ('K', 'FL', 'TUP'): self.fail('comprehension element of translation-time structure', n)
        return Val(('L', self.tr.rtype(el)), f'(flat_map (fun v_{x} => map (fun v_{y} => {self.tr.text(el) if el.ty != "I" else self.tr.S(el)}) {l2.tx}) {l1.tx})')

    def listcomp(self, n, env):
        if len(n.generators) == 2: return self.listcomp2(n, env)
        if len(n.generators) != 1: self.fail('nested comprehension', n)
        g = n.generators[0]
        if not isinstance(g.target, ast.Name): self.fail('comprehension target', n)
        it = self.expr(g.iter, env)
        x = g.target.id
        if isinstance(it.ty, tuple) and it.ty[0] == 'IT':
            if not isinstance(g.iter, ast.Call): self.fail('an iterator that is not consumed where it is produced', n)
            it = Val(('L', it.ty[1]), it.tx)
        if it.ty == 'FL':
            out = []
            dynamic = False
            for item in it.items:
                e2 = dict(env); e2[x] = item
                keep = True
                for c in g.ifs:
                    cv = self.truth(self.expr(c, e2), n)
                    if cv.ty != 'K': dynamic = True; break
                    keep = keep and cv.const
                if dynamic: break
                if keep: out.append(self.expr(n.elt, e2))
            if not dynamic: return Val('FL', items=out)
            it = Val(self.tr.rtype(it), self.tr.text(it))
        if isinstance(it.ty, tuple) and it.ty[0] == 'L':
            et = it.ty[1]
            e2 = dict(env); e2[x] = Val(et, 'v_' + x)
            t = it.tx
            if g.ifs:
                cs = self.conj(self.purely(lambda: [self.truth(self.expr(c, e2), n) for c in g.ifs]), 'andb')
                t = f'(filter (fun v_{x} => {self.tr.text(cs)}) {t})'
            if self.pure_depth > 0 or g.ifs:
                el = self.purely(lambda: self.expr(n.elt, e2))
            else:
                # the element may raise (never consume fuel): [f(x) for x in l] is then map_outcome, the first exception in list order wins
                mark = len(self.pending)
                el = self.expr(n.elt, e2)
                ents = self.pending[mark:]
                del self.pending[mark:]
                if ents:
                    if el.ty in ('K', 'FL', 'TUP'): self.fail('raising comprehension element of translation-time structure', n)
                    body = self.in_ctx('comp', lambda: self.wrap(ents, f'(Returns {self.tr.text(el)})', 'comp', n))
                    r = self.fresh('r')
                    self.push_effect({'effects': {'exc'}, 'what': 'comprehension whose element may raise', 'kind': 'call',
                                      'text': f'(map_outcome (fun v_{x} =>\n  {body}) {t})', 'pat': r}, n)
                    return Val(('L', self.tr.rtype(el)), r)
            if isinstance(n.elt, ast.Name) and n.elt.id == x: return Val(('L', et), t)
            return Val(('L', self.tr.rtype(el)), f'(map (fun v_{x} => {self.tr.text(el)}) {t})')
        self.fail(f'comprehension over {it.ty!r}', n)

    # ------------------------------------------------------------------ calls
    def callfun(self, cls, name, args, n, consts=()):
        """call translated method; args includes the receiver first (unless classmethod)"""
        try:
            cname, rty, file = self.tr.function(cls, name, consts)
        except KeyError:
            self.fail(f'cannot find {cls}.{name}', n)
        if (cls, name) in SELF_TY and (not args or args[0].ty != SELF_TY[(cls, name)]):
            self.fail(f'{cls}.{name} takes its receiver as a {SELF_TY[(cls, name)]!r}', n)
        if (cls, name) in RET_REFINE:
            want = ('L', 'IXSS') if cname.endswith('_ixss') else ('L', 'IXS') if cname.endswith('_ixs') else RET_REFINE[(cls, name)]
            if tmatch(rty, want) is not None: rty = tmatch(rty, want)
        argt = ' '.join(self.argtext(a) for a in args)
        if (cls, name, consts) in self.tr.inprogress and cname != self.cname:
            self.fail(f'{self.cname} and {cname} are mutually recursive', n)
        # round 4: the abstract parameters of the callee are passed on (and become parameters of this definition)
        xs = self.tr.extras.get(cname, [])
        self.formats.update(xs)
        extra = ''.join(fmt_param(f) + ' ' for f in xs) + ('keq ' if xs else '')
        if args and isinstance(args[0].ty, tuple) and args[0].ty[0] == 'OBJ': extra += ''.join(t + ' ' for t in args[0].ty[2])      # round 4
        if cname in self.tr.pyclip:      # round 6
            self.uses_pyclipper = True
            extra += 'toZ clipper '
        m = is_mtype(rty)
        if m is not None:
            # the callee consumes fuel and/or may raise: its result is bound around the statement being translated
            eff, inner = m
            fuel = self.budget() + ' ' if 'fuel' in eff else ''
            ceff = effects_of(cls, name, consts, 'zd' if cname.endswith('_zd') else None)
            if 'depth' in ceff:      # round 6: a callee that recurses on `depth` (and whose own callees loop on `fuel`)
                fuel = (self.budget() + ' ' if 'fuel' in ceff else '') + self.depth_budget() + ' '
            r = self.fresh('r')
            self.push_effect({'effects': set(eff), 'what': f'call of {cname}', 'kind': 'call', 'text': f'({cname} O {extra}{fuel}{argt})'.replace(' )', ')'), 'pat': r}, n)
            return Val(inner, r)
        return Val(rty, f'({cname} O {extra}{argt})'.replace(' )', ')'))

    # ------------------------------------------------------------------ effects
    def purely(self, thunk):
        self.pure_depth += 1
        try: return thunk()
        finally: self.pure_depth -= 1

    def in_ctx(self, ctx, thunk):
        self.ctx_stack.append(ctx)
        try: return thunk()
        finally: self.ctx_stack.pop()

    def budget(self):
        if 'fuel' not in self.effects: self.fail('a fuelled operation in a function not declared to use fuel (EFFECTS)')
        self.fuel_used[-1] = True
        self.occurred.add('fuel')
        return self.fuel_names[-1]

    def depth_budget(self):
        if 'depth' not in self.declared: self.fail('a call of a function that recurses on `depth` in a function not declared with it (EFFECTS)')
        self.occurred.add('depth')
        return self.depth_name

    def push_effect(self, ent, n):
        if self.pure_depth > 0: self.fail(f'{ent["what"]} in an expression that is evaluated conditionally or repeatedly', n)
        if not ent['effects'] <= set(self.effects): self.fail(f'{ent["what"]} in a function not declared with effects {sorted(ent["effects"])} (EFFECTS)', n)
        self.pending.append(ent)

    def raise_text(self, e, ctx=None):
        """`raise e` as a result of the function being translated / of the enclosing loop / of one element of a comprehension"""
        ctx = ctx or self.ctx_stack[-1]
        if ctx == 'loop': return f'(Some (Raises {e}))'
        if ctx == 'comp': return f'(Raises {e})'
        return f'(Some (Raises {e}))' if 'fuel' in self.effects else f'(Raises {e})'

    def mreturn(self, v):
        tr = self.tr
        if v.ty == 'K' and v.const is None: return v
        t, tx = tr.rtype(v), tr.text(v)
        if self.mreturn_tag is not None: t, tx = 'EARLY', f'({self.mreturn_tag} {tx})'      # round 6 (join_early)
        if 'exc' in self.effects: tx = f'(Returns {tx})'
        if 'fuel' in self.effects: tx = f'(Some {tx})'
        return Val(mtype(self.effects, t), tx)

    def flush(self, mark, r, node):
        """wrap the effectful operations of one statement (pushed since `mark`) around the translation r of it and of what follows"""
        ents = self.pending[mark:]
        del self.pending[mark:]
        if not ents: return r
        if r.ty == 'K' and r.const is None: self.fail('effectful operation on a path that returns None', node)
        if is_mtype(self.tr.rtype(r)) is None:
            raise EffectInJoin(f'{self.path}:{getattr(node, "lineno", self.fd.lineno)} ({self.fd.name}): effectful operation where the continuation is not a function result')
        return self.retext(r, self.wrap(ents, self.tr.text(r), self.ctx_stack[-1], node))

    def wrap(self, ents, t, ctx, node):
        # a loop body may raise only in a function that declares it; the loop's Fixpoint then returns option (outcome _)
        allowed = {'fun': set(self.effects), 'loop': {'fuel'} | ({'exc'} & set(self.effects)), 'comp': {'exc'} & set(self.effects),
                   'foldx': set(self.effects), 'pure': set()}[ctx]
        for ent in reversed(ents):
            if not ent['effects'] <= allowed: self.fail(f'{ent["what"]} inside a {ctx} body', node)
            self.occurred |= ent['effects']
            if ctx == 'loop' and 'exc' in ent['effects']: self.loop_flags[-1]['exc'] = True
            if ent['kind'] == 'floor':
                t = (f'if negb (eqb O {ent["text"]} {ent["text"]}) then {self.raise_text("PyValueError")}\n  else if isinf_ O {ent["text"]} then {self.raise_text("PyOverflowError")}\n'
                     f'  else let {ent["pat"]} := (floor_ O {ent["text"]}) in\n  {t}')
            elif ent['kind'] == 'index':
                t = f'match py_index O {ent["text"]} with\n  | None => {self.raise_text("PyIndexError")}\n  | Some {ent["pat"]} =>\n  {t}\n  end'
            elif ent['kind'] == 'indexZ':
                t = f'match py_index_Z {ent["text"]} with\n  | None => {self.raise_text("PyIndexError")}\n  | Some {ent["pat"]} =>\n  {t}\n  end'
            elif ent['kind'] == 'unbox':
                t = f'match {ent["text"]} with\n  | None => {self.raise_text("PyNoneError", ctx)}\n  | Some {ent["pat"]} =>\n  {t}\n  end'
            elif ent['kind'] == 'convert':   # round 6
                t = f'match {ent["text"]} with\n  | None => {self.raise_text("PyConvertError", ctx)}\n  | Some {ent["pat"]} =>\n  {t}\n  end'
            elif ent['kind'] == 'clipper':
                t = f'match {ent["text"]} with\n  | None => {self.raise_text("PyClipperError", ctx)}\n  | Some {ent["pat"]} =>\n  {t}\n  end'
            elif ent['kind'] == 'poplast':
                t = f'match {ent["text"]} with\n  | [] => {self.raise_text("PyIndexError", ctx)}\n  | _ :: _ =>\n  {t}\n  end'
            elif ent['kind'] == 'let':       # round 6: a subterm bound to a name (no effect of its own)
                t = f'let {ent["pat"]} := {ent["text"]} in\n  {t}'
            elif ent['kind'] == 'zdiv':      # round 6
                t = f'if eqb O {ent["text"]} (ofZ O 0) then {self.raise_text("PyZeroDivisionError", ctx)}\n  else {t}'
            elif ent['kind'] == 'sqrtneg':
                t = f'let {ent["pat"]} := {ent["text"]} in\n  if ltb O {ent["pat"]} (ofZ O 0) then {self.raise_text("PyValueError", ctx)}\n  else {t}'
            elif ent['kind'] == 'nonelist':
                t = f'match {ent["text"]} with\n  | None => {self.raise_text("PyTypeError", ctx)}\n  | Some {ent["pat"]} =>\n  {t}\n  end'
            elif ent['kind'] == 'raise':
                t = self.raise_text(ent['text'], ctx)
            elif ent['kind'] == 'unbound':
                t = f'match {ent["text"]} with\n  | None => {self.raise_text("PyUnboundLocalError", ctx)}\n  | Some {ent["pat"]} =>\n  {t}\n  end'
            elif ent['kind'] == 'minlist':
                t = f'match {ent["text"]} with\n  | [] => {self.raise_text("PyValueError", ctx)}\n  | {ent["pat"]} =>\n  {t}\n  end'
            elif ent['kind'] == 'popleft':
                t = f'match {ent["text"]} with\n  | [] => {self.raise_text("PyIndexError")}\n  | {ent["pat"]} =>\n  {t}\n  end'
            elif ent['kind'] == 'head':
                t = f'match {ent["text"]} with\n  | [] => {self.raise_text("PyIndexError")}\n  | {ent["pat"]} :: _ =>\n  {t}\n  end'
            elif ent['kind'] == 'last':
                t = f'match last_error {ent["text"]} with\n  | None => {self.raise_text("PyIndexError")}\n  | Some {ent["pat"]} =>\n  {t}\n  end'
            elif ent['effects'] == {'fuel'}:
                t = f'match {ent["text"]} with\n  | None => None\n  | Some {ent["pat"]} =>\n  {t}\n  end'
            elif ent['effects'] == {'exc'}:
                t = f'match {ent["text"]} with\n  | Raises e_ => {self.raise_text("e_")}\n  | Returns {ent["pat"]} =>\n  {t}\n  end'
            else:
                t = f'match {ent["text"]} with\n  | None => None\n  | Some (Raises e_) => {self.raise_text("e_")}\n  | Some (Returns {ent["pat"]}) =>\n  {t}\n  end'
        return t

    def argtext(self, a):
        t = self.tr.text(a)
        return t

    def bindargs(self, fd, args, kwargs, n, skip_self, defpath=None):
        """positional+keyword+defaults -> list of Val in parameter order (self excluded);
        with defpath, default expressions are evaluated in the namespace of that module (where Python evaluated them)"""
        dfx = self if defpath is None or defpath == self.path else FunTx(self.tr, defpath, None, fd)
        if len(args) > len([a.arg for a in fd.args.args][1 if skip_self else 0:]) and defpath is not None: self.fail('too many positional arguments', n)
        if defpath is not None and (set(kwargs) - {a.arg for a in fd.args.args}): self.fail('unknown keyword argument', n)
        params = [a.arg for a in fd.args.args][1 if skip_self else 0:]
        defaults = fd.args.defaults
        dmap = {}
        allp = [a.arg for a in fd.args.args]
        for p, d in zip(allp[len(allp) - len(defaults):], defaults): dmap[p] = d
        out = []
        for i, p in enumerate(params):
            if i < len(args): out.append(args[i])
            elif p in kwargs: out.append(kwargs[p])
            elif p in dmap: out.append(dfx.expr(dmap[p], {}))
            else: self.fail(f'missing argument {p}', n)
        return out

    def coerce_args(self, cls, name, vals, n):
        """apply the signature table: constants split off, Optional wrapping, int->scalar"""
        sig = sig_of(cls, name, len(vals))
        consts, out = [], []
        for v, ty in zip(vals, sig):
            if ty == 'K':
                if v.ty != 'K': self.fail(f'argument of {cls}.{name} must be constant', n)
                consts.append(v.const)
            elif ty == 'A':
                if v.ty in SEGN and ('RNG', v.ty) in ARG_CLASSES[(cls, name)]: v = self.as_ranged(v, n)
                if not (isinstance(v.ty, (str, tuple)) and v.ty in ARG_CLASSES[(cls, name)]): self.fail(f'argument class {v.ty!r} of {cls}.{name}', n)
                consts.append(('ty', v.ty)); out.append(v)
            elif ty == 'KF':
                if not (v.ty == 'S' and isinstance(v.const, tuple) and v.const[0] == 'pyfloat' and v.tx is not None):
                    self.fail(f'argument of {cls}.{name} must be a float known at translation time', n)
                consts.append(('pyfloat', v.const[1], v.tx))
            elif ty == 'BB' and v.ty == ('O', 'BB') and 'exc' in self.effects:
                out.append(self.unbox(v, n))
            elif ty == 'S':
                out.append(Val('S', self.tr.S(v)))
            elif ty == 'B':
                out.append(Val('B', self.tr.text(v)))
            elif isinstance(ty, tuple) and ty[0] == 'O':
                if v.ty == 'K' and v.const is None: out.append(Val(ty, 'None'))
                elif self.tr.rtype(v) == ty: out.append(v)
                else: out.append(Val(ty, f'(Some {self.tr.S(v) if ty[1] == "S" else self.tr.text(v)})'))
            else:
                if self.tr.rtype(v) != ty: self.fail(f'argument type {self.tr.rtype(v)!r} where {ty!r} expected in {cls}.{name}', n)
                out.append(v)
        return out, tuple(consts)

    def call(self, n, env):
        tr = self.tr
        f = n.func
        if isinstance(f, ast.Name) and f.id == 'isinstance' and f.id not in env and f.id not in self.localfuns:
            # decided at translation time from the class of the value; the classes of the table are unrelated by inheritance
            if len(n.args) != 2 or n.keywords or not isinstance(n.args[1], ast.Name) or n.args[1].id not in TY_OF_CLASS or n.args[1].id in env:
                self.fail('isinstance form', n)
            v = self.expr(n.args[0], env)
            if isinstance(v.ty, str) and v.ty in CLASS_OF: return Val('K', const=(CLASS_OF[v.ty] == n.args[1].id))
            if v.ty == 'PCLOSED': return Val('K', const=(n.args[1].id == 'BezierPath'))
            self.fail(f'isinstance of {v.ty!r}', n)
        mark0 = len(self.pending)
        args = [self.expr(a, env) if not isinstance(a, ast.Starred) else Val('STAR', items=self.expr(a.value, env)) for a in n.args]
        kwargs = {k.arg: self.expr(k.value, env) for k in n.keywords}
        mark1 = len(self.pending)
        # ---- builtins by name
        if isinstance(f, ast.Name) and f.id not in env and f.id not in self.localfuns:
            name = f.id
            if name == 'abs':
                a = args[0]
                if a.ty == 'I': return Val('I', const=abs(a.const))
                if a.ty == 'Z': return Val('Z', f'(Z.abs {a.tx})')       # round 4: a run-time int
                return Val('S', f'(abs_ O {tr.S(a)})')
            if name in ('min', 'max') and len(args) >= 2 and not kwargs:
                # builtin max/min over positional arguments: keep the first, replace when a later one compares strictly better
                if all(a.ty == 'I' for a in args): return Val('I', const=(min if name == 'min' else max)(a.const for a in args))
                if all(a.ty in ('I', 'Z') for a in args):       # round 4: run-time ints (equal ints are the same value: which one is kept does not matter)
                    acc = self.Zt(args[0])
                    for b in args[1:]: acc = f'(Z.{name} {acc} {self.Zt(b)})'
                    return Val('Z', acc)
                acc = tr.S(args[0])
                for b in args[1:]: acc = f'({name}2 O {acc} {tr.S(b)})'
                return Val('S', acc)
            if name == 'min' and len(args) == 1 and not kwargs and args[0].ty == ('L', 'S') and args[0].tx is not None and 'exc' in self.effects:
                # round 5: min(<list of floats>): ValueError on an empty list; else the first item, replaced by a later one that compares
                # strictly smaller (min2 of Base/Ops.v, as for min(a, b, ..))
                h, tl = self.fresh('m_hd'), self.fresh('m_tl')
                self.push_effect({'effects': {'exc'}, 'what': 'min() of a list (ValueError when it is empty)', 'kind': 'minlist', 'text': args[0].tx, 'pat': f'{h} :: {tl}'}, n)
                return Val('S', f'(fold_left (min2 O) {tl} {h})')
            if name in ('min', 'max') and len(args) == 1 and set(kwargs) == {'key'} and args[0].ty == 'FL' and args[0].items \
                    and kwargs['key'].ty == 'K' and isinstance(kwargs['key'].const, tuple) and kwargs['key'].const[0] == 'lambda':
                return self.extremum_by(name, args[0], kwargs['key'], n)
            if name == 'len':
                a = args[0]
                if a.ty in SEGN: return Val('I', const=SEGN[a.ty])
                if a.ty in ('FL', 'TUP'): return Val('I', const=len(a.items))
                if isinstance(a.ty, tuple) and a.ty[0] == 'L': return Val('LEN', tx=a.tx)
                if a.ty == 'LENOF': return Val('Z', a.tx)      # round 4: len() of an abstracted attribute: a parameter
                if a.ty == 'SEG':       # Segment.__len__ is len(self.points): 2, 3 or 4 by the class
                    self.tr.fingerprints['segment.py:Segment.__len__'] = fingerprint(find_def('Line', '__len__')[1])
                    return Val('SEGLEN', tx=a.tx)
                self.fail('len', n)
            if name == 'enumerate' and len(args) == 1 and not kwargs:
                a = args[0]
                if isinstance(a.ty, tuple) and a.ty[0] == 'L' and a.ty[1] != '?' and a.tx is not None:
                    return Val(('L', ('T', ('Z', a.ty[1]))), f'(enumerate_Z {a.tx})')
                self.fail(f'enumerate of {a.ty!r}', n)
            if name == 'str' and len(args) == 1 and not kwargs and args[0].ty == 'S' and isinstance(args[0].const, tuple) and args[0].const[0] == 'pyfloat':
                return Val('K', const=str(args[0].const[1]))        # round 4: str() of a translation-time float
            if name == 'Decimal' and imports_name(self.path, 'Decimal', 'decimal') and len(args) == 1 and not kwargs \
                    and args[0].ty == 'K' and isinstance(args[0].const, str):
                import decimal
                try: return Val('K', const=('py', decimal.Decimal(args[0].const)))     # round 4: exact, context-independent
                except decimal.InvalidOperation: self.fail(f'Decimal({args[0].const!r})', n)
            if name == 'float':
                a = args[0]
                if a.ty == 'K' and isinstance(a.const, str):
                    # round 7: float("inf"), and no other string
                    if self.key in ROUND7 and a.const == 'inf' and len(args) == 1 and not kwargs: return Val('XS', 'None')
                    self.fail(f'float({a.const!r})', n)
                return Val('S', tr.S(a))
            if name == 'int' and len(n.args) == 1 and isinstance(n.args[0], ast.Call) and isinstance(n.args[0].func, ast.Attribute) and n.args[0].func.attr == 'copysign' \
                    and isinstance(n.args[0].func.value, ast.Name) and n.args[0].func.value.id == 'math' and 'math' not in env and len(n.args[0].args) == 2 \
                    and isinstance(n.args[0].args[0], ast.Constant) and type(n.args[0].args[0].value) is int and n.args[0].args[0].value >= 1:
                # round 4: int(math.copysign(k, x)), k a positive int literal: copysign gives k or -k exactly, so the int is k or -k
                kk = n.args[0].args[0].value
                x = tr.S(self.expr(n.args[0].args[1], env))
                return Val('Z', f'(if ltb O (copysign_ O (ofZ O ({kk})) {x}) (ofZ O 0) then ({-kk})%Z else ({kk})%Z)')
            if name == 'int':
                a = args[0]
                if a.ty == 'I': return a
                if a.ty == 'S' and a.const == 'int': return a       # int(math.floor(x)): already an int
                return Val('S', f'(trunc_ O {tr.S(a)})')
            if name == 'sqrt': return Val('S', f'(sqrt_ O {tr.S(args[0])})')
            if name == 'isclose':
                if kwargs: self.fail('isclose with tolerances', n)
                return Val('B', f'(isclose O {tr.S(args[0])} {tr.S(args[1])})')
            if name == 'deque' and imports_name(self.path, 'deque', 'collections'):
                if len(args) == 1 and not kwargs and args[0].ty == 'FL' and not args[0].items: return Val(('DQ', '?'), '[]')
                self.fail('deque(..) of anything but an empty list literal', n)
            if name == 'sorted' and set(kwargs) == {'key'} and len(args) == 1 and kwargs['key'].ty == 'K' and isinstance(kwargs['key'].const, tuple) \
                    and kwargs['key'].const[0] == 'lambda':
                # sorted(l, key=lambda x: <float>): stable, the keys compared with < only (sorted_by of the prelude)
                a = args[0]
                if not (isinstance(a.ty, tuple) and a.ty[0] == 'L' and a.ty[1] != '?' and a.tx is not None): self.fail(f'sorted(key=) of {a.ty!r}', n)
                body, ftx = self.lambda_text(kwargs['key'], [a.ty[1]], n)
                if body.ty not in ('S', 'I'): self.fail(f'sort key of type {body.ty!r}', n)
                return Val(a.ty, f'(sorted_by O {ftx} {a.tx})')
            if name == 'sorted':
                a = args[0]
                if kwargs: self.fail('sorted with key', n)
                if a.ty == 'FL': a = Val(tr.rtype(a), tr.text(a))
                if a.ty == ('L', 'S'): return Val(a.ty, f'(sort_ O {a.tx})')
                self.fail(f'sorted of {a.ty!r}', n)
            if name == 'reversed':
                a = args[0]
                if a.ty == 'FL': return Val('FL', items=list(reversed(a.items)))
                self.fail('reversed of dynamic list', n)
            if name == 'list':
                return args[0]
            if name == 'print':
                return Val('K', const=None)
            if name == 'type' and len(args) == 1 and args[0].ty in CLASS_OF:
                return Val('K', const=('class', CLASS_OF[args[0].ty]))
            if name == 'range':
                if all(a.ty == 'I' for a in args):
                    return Val('FL', items=[Val('I', const=i) for i in range(*[a.const for a in args])])
                if not kwargs and len(args) in (1, 2) and all(a.ty in ('I', 'Z', 'LEN') for a in args) and self.file in RANGE_Z_FILES:
                    # round 4: range() of run-time ints, the list of them (range_Z of the prelude of Gen/MinDist.v)
                    lo, hi = ('0%Z', self.Zt(args[0])) if len(args) == 1 else (self.Zt(args[0]), self.Zt(args[1]))
                    return Val(('L', 'Z'), f'(range_Z {lo} {hi})')
                self.fail('dynamic range', n)
            if name == 'zip':
                if all(a.ty == 'FL' for a in args):
                    return Val('FL', items=[Val('TUP', items=list(t)) for t in zip(*[a.items for a in args])])
                if len(args) == 2 and not kwargs and all(isinstance(a.ty, tuple) and a.ty[0] == 'L' and a.ty[1] != '?' for a in args):
                    # zip of two lists stops at the shorter one, as List.combine does
                    return Val(('L', ('T', (args[0].ty[1], args[1].ty[1]))), f'(combine {args[0].tx} {args[1].tx})')
                self.fail('dynamic zip', n)
            if name in RECORD_OF_CLASS:
                if not self.names_class(name): self.fail(f'{name} is not the class of {MODULE_OF_CLASS[name]} here', n)
                return self.construct(name, args, n, kwargs)
            if name in OBJECTS and (self.names_class(name)):
                return self.construct_object(name, args, kwargs, n)
            if name in TY_OF_CLASS or name == 'klass' or name == 'Intersection':
                return self.construct(name, args, n)
            if (self.path, name) in INT_FUNS or (self.path, ALIASES.get((self.path, name))) in INT_FUNS:
                if not all(a.ty == 'I' for a in args): self.fail(f'{name} needs translation-time ints', n)
                return Val('I', const=run_int_function(self.path, ALIASES.get((self.path, name), name), [a.const for a in args]))
            if (self.path, ALIASES.get((self.path, name), name)) in INLINE_FUNS:
                fd2 = find_modfun(self.path, ALIASES.get((self.path, name), name))
                self.tr.fingerprints[f'{self.path}:.{fd2.name}'] = fingerprint(fd2)
                sub = FunTx(self.tr, self.path, None, fd2)
                sub.counter = self.counter + 1000 * (1 + len(self.tr.fingerprints))
                sub.closure_env = {}
                r = sub.inline(fd2, args, kwargs, n)
                return r
            if (self.path, name) in MODSIG or self.modfun_path(name):
                p = self.modfun_path(name)
                return self.call_modfun(p, name, args, kwargs, n)
            self.fail(f'call of {name}', n)
        fv = self.expr(f, env)
        if len(self.pending) > mark1 > mark0:
            # round 5: Python evaluates the callee expression (`segs[i1]` of segs[i1].intersections(segs[i2])) BEFORE the arguments: the
            # operations of it that may raise come first
            self.pending[mark0:] = self.pending[mark1:] + self.pending[mark0:mark1]
        if isinstance(fv.ty, tuple) and fv.ty[0] == 'FUN':
            # a parameter that is a function: applied
            if kwargs or len(args) != len(fv.ty[1]): self.fail('call of a function parameter: arity', n)
            return Val(fv.ty[2], '(' + ' '.join([fv.tx] + [self.as_type(a, t, n) for a, t in zip(args, fv.ty[1])]) + ')')
        if fv.ty == 'K' and isinstance(fv.const, tuple):
            kind = fv.const[0]
            if kind == 'math':
                m = fv.const[1]
                if m == 'sqrt' and self.checked and len(n.args) == 1 and not kwargs: return self.checked_sqrt(n.args[0], args[0], n)      # round 6
                if m in ('sqrt', 'cos', 'sin', 'acos'): return Val('S', f'({m}_ O {tr.S(args[0])})')
                if m in ('atan2', 'pow', 'copysign'): return Val('S', f'({m}_ O {tr.S(args[0])} {tr.S(args[1])})')
                if m == 'floor' and 'exc' in self.effects:
                    # math.floor raises ValueError on a NaN and OverflowError on an infinity; its result is an int
                    x = tr.S(args[0])
                    f_ = self.fresh('f')
                    self.push_effect({'effects': {'exc'}, 'what': 'math.floor (ValueError, OverflowError)', 'kind': 'floor', 'text': x, 'pat': f_}, n)
                    return Val('S', f_, const='int')
                if m == 'floor': return Val('S', f'(floor_ O {tr.S(args[0])})')
                if m == 'isclose': return Val('B', f'(isclose O {tr.S(args[0])} {tr.S(args[1])})')
                self.fail(f'math.{m}', n)
            if kind == 'pyclipper':
                # round 6: pc = pyclipper.Pyclipper(): the object, known by the paths added to it so far (none)
                if fv.const[1] != 'Pyclipper' or args or kwargs: self.fail(f'call of pyclipper.{fv.const[1]}', n)
                return Val('PC', items=[Val('FL', items=[]), Val('FL', items=[])])
            if kind == 'pcmethod':
                _, mname, pc = fv.const
                if mname != 'Execute': self.fail('pc.AddPath(..) elsewhere than as a statement', n)
                return self.pc_execute(pc, args, kwargs, n)
            if kind == 'class':
                return self.construct(fv.const[1], args, n, kwargs if fv.const[1] in RECORD_OF_CLASS else None)
            if kind == 'classattr':
                _, cls, a = fv.const
                if a == 'fromRepr': self.fail('fromRepr', n)
                if cls == 'BezierPath':
                    # a path built by BezierPath.fromSegments(array) is represented by the list of its segments
                    # (fromSegments stores the array; asSegments() hands the same list back)
                    if a != 'fromSegments' or len(args) != 1 or kwargs: self.fail(f'BezierPath.{a}', n)
                    l = args[0]
                    lt = tr.rtype(l) if l.ty != 'STAR' else None
                    if isinstance(lt, tuple) and lt[0] == 'L' and lt[1] in ('EDGE', 'TSEG') and l.tx is not None:
                        # round 5: segments with their `_orig`: the path as (segments, closed), closed as __init__ sets it
                        self.check_fromSegments(n)
                        self.fresh_list_handover(n, n)
                        return Val(('PATHC', lt[1]), items=[Val(lt, tr.text(l)), Val('K', const=self.path_init_closed(n))])
                    if isinstance(lt, tuple) and lt[0] == 'L' and lt[1] == 'SEG' and l.tx is not None and self.key in CLIP_FUNS:
                        # round 6: a list of segments of mixed classes built in the enclosing loop body: the path as (segments, closed)
                        self.check_fromSegments(n)
                        self.loop_list_handover(n)
                        return Val(('PATHC', 'SEG'), items=[Val(lt, tr.text(l)), Val('K', const=self.path_init_closed(n))])
                    if not (isinstance(lt, tuple) and lt[0] == 'L' and lt[1] in SEGN): self.fail(f'BezierPath.fromSegments of {lt!r}', n)
                    return Val(lt, tr.text(l))
                path, fd, defcls = find_def(cls, a)
                vals = self.bindargs(fd, args, kwargs, n, skip_self=True)
                vals, consts = self.coerce_args(cls, a, vals, n)
                return self.callfun(cls, a, vals, n, consts)
            if kind == 'dictvalues':
                # round 4: d.values(): the values in the order of first insertion of their keys (only iterated, where it stands)
                d = fv.const[1]
                if args or kwargs or d.ty[2] == '?': self.fail('values() of a dict of unknown type / with arguments', n)
                return Val(('IT', d.ty[2]), f'(map snd {d.tx})')
            if kind == 'absmethod':
                # round 4: a method of the object that is a parameter of the definition
                _, ab, ftx = fv.const
                if kwargs or len(args) != len(ab[3]): self.fail(f'call of .{ab[1]}: arity', n)
                tx = '(' + ' '.join([ftx] + [self.as_type(a, t, n) for a, t in zip(args, ab[3])]) + ')'
                if isinstance(ab[4], tuple) and ab[4][0] == 'X':
                    r = self.fresh('r')
                    self.push_effect({'effects': {'exc'}, 'what': f'call of .{ab[1]} (it may fail)', 'kind': 'call', 'text': tx, 'pat': r}, n)
                    return Val(ab[4][1], r)
                return Val(ab[4], tx)
            if kind == 'pymethod':
                _, obj, a = fv.const
                if args or kwargs: self.fail(f'{type(obj).__name__}.{a} with arguments', n)
                return Val('K', const=('py', getattr(obj, a)()))
            if kind == 'bound' and fv.const[1] == 'BezierPath' and fv.const[2] == 'clone' and fv.const[3].ty == 'PATH' and self.key in CLIP_FUNS:
                # round 6: path.clone() of a path known as the list of its segments: the list of the clones of the segments (fresh objects;
                # the flag `closed`, which BezierPath.clone copies too, is not part of a 'PATH' value)
                if args or kwargs: self.fail('clone with arguments', n)
                path, fd, defcls = find_def('BezierPath', 'clone')
                want = ast.parse('p = BezierPath.fromSegments([s.clone() for s in self.asSegments()])\np.closed = self.closed\nreturn p').body
                body = [b for b in fd.body if not (isinstance(b, ast.Expr) and isinstance(b.value, ast.Constant))]
                if [ast.dump(b) for b in body] != [ast.dump(b) for b in want] or [a_.arg for a_ in fd.args.args] != ['self']: self.fail('BezierPath.clone is not the method the model was written for', n)
                self.check_fromSegments(n)
                tr.fingerprints[f'{path}:{defcls}.clone'] = fingerprint(fd)
                recv = fv.const[3]
                cl = self.seg_dispatch(Val('SEG', 'v_s'), lambda c, sv: self.callfun(c, 'clone', [sv], n), n)
                return Val('PATH', f'(map (fun v_s => {cl.tx}) {recv.tx})')
            if kind == 'bound':
                _, cls, a, recv = fv.const
                if (cls, a) in STATEFUL and not self.in_stateful_call:
                    self.fail(f'{cls}.{a} changes its receiver: a call is only translated as the right-hand side of an assignment, on a local variable', n)
                path, fd, defcls = find_def(cls, a)
                vals = self.bindargs(fd, args, kwargs, n, skip_self=True)
                vals, consts = self.coerce_args(cls, a, vals, n)
                want = SELF_TY.get((cls, a))
                if isinstance(want, tuple) and want[0] == 'RNG' and recv.ty == want[1]:
                    recv = self.as_ranged(recv, n)       # round 4: a curve as its constructor made it
                return self.callfun(cls, a, [recv] + vals, n, consts)
            if kind == 'localfun' and self.key in CLIP_FUNS and self.is_pairwise(self.localfuns[fv.const[1]]):
                # round 6: the generator `pairwise(points)`: the pairs (points[i], points[i + 1]) in order (next(b) on an empty list would be a
                # RuntimeError: the argument must be known to be non-empty -- here `<list> + [<item>]`)
                if kwargs or len(args) != 1: self.fail('pairwise arity', n)
                a0 = args[0]
                if not (isinstance(a0.ty, tuple) and a0.ty[0] == 'L' and a0.ty[1] != '?' and a0.tx is not None and isinstance(a0.const, tuple) and a0.const[0] == 'nonempty'):
                    self.fail('pairwise(..) of a list not known to be non-empty', n)
                nm = self.fresh('l')
                return Val(('IT', ('T', (a0.ty[1], a0.ty[1]))), f'(let {nm} := {a0.tx} in combine {nm} (tl {nm}))')
            if kind == 'localfun':
                return self.inline(self.localfuns[fv.const[1]], args, kwargs, n)
            if kind == 'shapebounds':
                if args or kwargs: self.fail('bounds() with arguments', n)
                return Val('BB', f'(snd {fv.const[1].tx})')
            if kind == 'asSegments':
                if args or kwargs: self.fail('asSegments with arguments', n)
                if isinstance(fv.const[1].ty, tuple) and fv.const[1].ty[0] == 'L': return fv.const[1]      # round 5: of a ('PATHC', t)
                return Val(('L', 'SEG'), fv.const[1].tx)
            if kind == 'bounddyn':
                _, a, recv = fv.const
                def one(cls, sv):
                    path, fd, defcls = find_def(cls, a)
                    vals = self.bindargs(fd, args, kwargs, n, skip_self=True)
                    vals, consts = self.coerce_args(cls, a, vals, n)
                    return self.callfun(cls, a, [sv] + vals, n, consts)
                # round 5: a receiver with its `_orig`, an argument that is a segment of unknown class where the callee is specialised on
                # the class ('A'), or a callee with effects for some class: seg_dispatch_x
                sig0 = sig_of('Line', a, len(args) + len(kwargs)) if (('*seg', a) in SIG or ('Line', a) in SIG) else []
                seg_args = [i for i, x in enumerate(args) if x.ty == 'SEG' and i < len(sig0) and sig0[i] == 'A']
                effectful = any((CLASS_OF[t], a) in EFFECTS or ('*seg', a) in EFFECTS for _, t in SEGSUM) or a == 'intersections'
                if recv.ty == 'TSEG' or seg_args or effectful:
                    if len(seg_args) > 1: self.fail(f'.{a}: more than one argument of unknown class', n)
                    scrs = [recv] + [args[i] for i in seg_args]
                    def arm(parts):
                        cls, sv, tag = parts[0]
                        want = SELF_TY.get((cls, a))
                        if want == 'EDGE' and tag is None and self.key in CLIP_FUNS and isinstance(n.func, ast.Attribute) and self.untagged_segment(n.func.value):
                            sv = Val('EDGE', f'({sv.tx}, None)')      # round 6: a segment of a cloned path: its `_orig` is None
                        elif want == 'EDGE': sv = Val('EDGE', f'({sv.tx}, {tag if tag is not None else "None"})') if tag is not None else self.fail(f'{cls}.{a} needs the `_orig` of its receiver', n)
                        path, fd, defcls = find_def(cls, a)
                        args2 = list(args)
                        for i, (c2, sv2, _) in zip(seg_args, parts[1:]): args2[i] = sv2
                        vals = self.bindargs(fd, args2, kwargs, n, skip_self=True)
                        vals, consts = self.coerce_args(cls, a, vals, n)
                        return self.callfun(cls, a, [sv] + vals, n, consts)
                    return self.seg_dispatch_x(scrs, arm, n, f'call of .{a} on a segment of unknown class')
                return self.seg_dispatch(recv, one, n)
            if kind == 'cdfmethod':
                _, mname, recv = fv.const
                fd2 = find_cdf_method(mname)
                self.tr.fingerprints[f'utils/curvedistance.py:MinimumCurveDistanceFinder.{mname}'] = fingerprint(fd2)
                fd3 = ast.FunctionDef(name=fd2.name, args=fd2.args, body=strip_memo(fd2), decorator_list=[], lineno=fd2.lineno)
                sub = FunTx(self.tr, 'utils/curvedistance.py', None, fd3)
                sub.counter = self.counter + 100000
                sub.closure_env = {}
                return sub.inline(fd3, [recv] + args, kwargs, n)
        self.fail(f'call of {ast.dump(f)[:80]}', n)

    def is_pairwise(self, fd):
        want = ast.parse('def pairwise(points):\n    a = (p for p in points)\n    b = (p for p in points)\n    next(b)\n    for curpoint, nextpoint in zip(a, b):\n        yield curpoint, nextpoint').body[0]
        return ast.dump(fd) == ast.dump(want)

    def pc_execute(self, pc, args, kwargs, n):
        """round 6: pc.Execute(cliptype, PFT_EVENODD, PFT_EVENODD): the coordinates of every path added are converted (toZ; subject paths first,
        as Hand/Clip.v does), then the abstract `clipper` runs"""
        tr = self.tr
        if kwargs or len(args) != 3 or args[0].ty != 'CT' or any(not (a.ty == 'K' and a.const == ('pyclipper', 'PFT_EVENODD')) for a in args[1:]):
            self.fail('pc.Execute(<cliptype>, pyclipper.PFT_EVENODD, pyclipper.PFT_EVENODD) is the only form modelled', n)
        subj, clp = pc.items
        s_, c_, r = self.fresh('subj'), self.fresh('clip'), self.fresh('r')
        self.uses_pyclipper = True
        self.push_effect({'effects': {'exc'}, 'what': 'conversion of the subject paths (pyclipper)', 'kind': 'convert', 'text': f'(clip_polys toZ {tr.text(subj)})', 'pat': s_}, n)
        self.push_effect({'effects': {'exc'}, 'what': 'conversion of the clip paths (pyclipper)', 'kind': 'convert', 'text': f'(clip_polys toZ {tr.text(clp)})', 'pat': c_}, n)
        self.push_effect({'effects': {'exc'}, 'what': 'pyclipper Execute (ClipperException)', 'kind': 'clipper', 'text': f'(clipper {args[0].tx} {s_} {c_})', 'pat': r}, n)
        return Val(('L', ('L', ('T', ('Z', 'Z')))), r)

    def modfun_path(self, name):
        if name in self.local_imports and (self.local_imports[name], name) in MODSIG: return self.local_imports[name]      # round 5
        src, tree = module(self.path)
        for nn in tree.body:
            if isinstance(nn, ast.FunctionDef) and nn.name == name: return self.path
            if isinstance(nn, ast.ImportFrom) and nn.module and nn.module.startswith('beziers'):
                for a in nn.names:
                    if a.name == name:
                        p = nn.module.split('.', 1)[1].replace('.', '/')
                        p = p + '.py' if os.path.exists(os.path.join(SRC, p + '.py')) else p + '/__init__.py'
                        if (p, name) in MODSIG: return p
        return None

    def call_modfun(self, path, name, args, kwargs, n):
        fd = find_modfun(path, name)
        vals = self.bindargs(fd, args, kwargs, n, skip_self=False, defpath=path)
        sig = MODSIG[(path, name)]
        if len(sig) != len(vals): self.fail(f'{name}: signature table has {len(sig)} args, call binds {len(vals)}', n)
        if 'A' in sig:
            # round 5: a module function specialised on the classes of its segment arguments, called on segments whose class is known
            # ('seg2' ..) or not ('SEG': dispatched, seg_dispatch_x)
            idx = [i for i, t in enumerate(sig) if t == 'A']
            scr_idx = [i for i in idx if vals[i].ty == 'SEG']
            for i in idx:
                if vals[i].ty != 'SEG' and vals[i].ty not in ARG_CLASSES[('mod:' + path, name)]: self.fail(f'argument class {vals[i].ty!r} of {name}', n)
            if len(scr_idx) > 2: self.fail(f'{name}: more than two arguments of unknown class', n)
            def arm(parts):
                vs = list(vals)
                for i, (c2, sv2, _) in zip(scr_idx, parts): vs[i] = sv2
                consts = tuple(('ty', vs[i].ty) for i in idx)
                outv = [vs[i] if sig[i] == 'A' else self.coerce_to(vs[i], sig[i], name, n) for i in range(len(sig))]
                return self.callfun('mod:' + path, name, outv, n, consts)
            if not scr_idx: return arm([])
            return self.seg_dispatch_x([vals[i] for i in scr_idx], arm, n, f'call of {name} on segments of unknown class')
        vals = [self.coerce_to(v, t, name, n) for v, t in zip(vals, sig)]
        cname, rty, file = self.tr.function('mod:' + path, name)
        return Val(rty, f'({cname} O {" ".join(self.tr.text(v) for v in vals)})')

    def coerce_to(self, v, t, what, n):
        """argument of a module function against its declared type"""
        tr = self.tr
        if t == 'S': return Val('S', tr.S(v))
        if isinstance(t, tuple) and t[0] == 'O':
            if v.ty == 'K' and v.const is None: return Val(t, 'None')
            vt = tr.rtype(v)
            if vt == t: return Val(t, tr.text(v))
            if vt == t[1] or (t[1] == 'S' and v.ty == 'I'): return Val(t, f'(Some {tr.S(v) if t[1] == "S" else tr.text(v)})')
            self.fail(f'argument type {vt!r} where {t!r} expected in {what}', n)
        if tr.rtype(v) != t: self.fail(f'argument type {tr.rtype(v)!r} where {t!r} expected in {what}', n)
        return v

    def as_ranged(self, v, n):
        """round 4: a curve whose `_range` is the one its __init__ sets"""
        lo, hi = self.whole_range(v.ty, n)
        return Val(('RNG', v.ty), f'(Ranged {v.tx} {self.tr.S(lo)} {self.tr.S(hi)})')

    def construct(self, name, args, n, kwargs=None):
        tr = self.tr
        if name == 'klass':
            if self.cls is None: self.fail('klass outside class', n)
            name = self.cls
        if name in RECORD_OF_CLASS:
            return self.construct_record(name, args, kwargs or {}, n)
        flat = []
        for a in args:
            if a.ty == 'STAR':
                if isinstance(a.items.ty, tuple) and a.items.ty[0] == 'T' and a.items.tx is not None:      # round 6: *<a run-time tuple>
                    flat.extend(self.tuple_items(a.items)); continue
                if a.items.ty != 'FL': self.fail('splat of dynamic list', n)
                flat.extend(a.items.items)
            else: flat.append(a)
        if name == 'Point':
            if len(flat) != 2: self.fail('Point arity', n)
            return Val('P', f'(P {tr.S(flat[0])} {tr.S(flat[1])})')
        if name in ('Line', 'QuadraticBezier', 'CubicBezier'):
            k = {'Line': 2, 'QuadraticBezier': 3, 'CubicBezier': 4}[name]
            if len(flat) != k or any(p.ty != 'P' for p in flat): self.fail(f'{name} constructor arguments', n)
            return Val(SEGTY[k], f'({SEGCON[k]} {" ".join(p.tx for p in flat)})')
        if name == 'AffineTransformation':
            if len(flat) == 0: return Val('M', '(M3 (ofZ O 1) (ofZ O 0) (ofZ O 0) (ofZ O 0) (ofZ O 1) (ofZ O 0) (ofZ O 0) (ofZ O 0) (ofZ O 1))')
            m = flat[0]
            if m.ty == 'FL' and len(m.items) == 3 and all(r.ty == 'FL' and len(r.items) == 3 for r in m.items):
                es = [tr.S(e) for r in m.items for e in r.items]
                return Val('M', f'(M3 {" ".join(es)})')
            self.fail('AffineTransformation constructor argument', n)
        if name == 'BoundingBox':
            if flat: self.fail('BoundingBox constructor arguments', n)
            return Val('UBB', const=dict(UNSET_BOX))
        if name == 'BezierPath' and self.key == ('BezierPath', 'fromPoints'):
            # round 6: a fresh path, known by its components (its representation still unset, `closed` as __init__ sets it)
            if flat: self.fail('BezierPath constructor arguments', n)
            return Val(('PATHC', '?'), items=[Val('K', const=('norep',)), Val('K', const=self.path_init_closed(n))])
        if name == 'Intersection':
            seg1, t1, seg2, t2 = flat
            if seg1.ty == 'SEG':      # round 5: of unknown class
                t1 = Val('S', tr.S(t1))
                pnt = self.seg_dispatch(seg1, lambda c, sv: self.callfun(c, 'pointAtTime', [sv, t1], n), n)
            else: pnt = self.callfun(CLASS_OF[seg1.ty], 'pointAtTime', [seg1, Val('S', tr.S(t1))], n)
            if self.ixs == 'ixss': return Val('IXSS', f'({self.as_type(seg1, "SEG", n)}, {self.as_type(seg2, "SEG", n)}, ({tr.S(t1)}, {pnt.tx}, {tr.S(t2)}))')      # round 5: with both
            if self.ixs: return Val('IXS', f'({self.as_type(seg1, "SEG", n)}, ({tr.S(t1)}, {pnt.tx}, {tr.S(t2)}))')      # round 4: with seg1
            return Val('IX', f'({tr.S(t1)}, {pnt.tx}, {tr.S(t2)})')
        self.fail(f'constructor {name}', n)

    def construct_object(self, name, args, kwargs, n):
        """round 4: an instance of an OBJECTS class: its __init__ must be a list of `self.<a> = <e>`; the mutable attributes give the
        initial state, the abstracted parts are built from what the constructor stores (for the finder: the two segments give
        len(), S and the table of D of their pair of classes, Gen/CurveDist.v), the ignored attributes must be set to {}"""
        tr = self.tr
        spec = OBJECTS[name]
        path, fd, defcls = find_def(name, '__init__')
        tr.fingerprints[f'{path}:{defcls}.__init__'] = fingerprint(fd)
        if fd.args.vararg or fd.args.kwarg or fd.args.kwonlyargs: self.fail(f'{name}.__init__ signature', n)
        vals = self.bindargs(fd, args, kwargs, n, skip_self=True, defpath=path)
        params = [a.arg for a in fd.args.args]
        env = dict(zip(params[1:], vals))
        sub = FunTx(tr, path, name, fd)
        attrs = {}
        for st in fd.body:
            if isinstance(st, ast.Expr) and isinstance(st.value, ast.Constant): continue
            if not (isinstance(st, ast.Assign) and len(st.targets) == 1 and isinstance(st.targets[0], ast.Attribute) and isinstance(st.targets[0].value, ast.Name)
                    and st.targets[0].value.id == params[0] and st.targets[0].attr not in attrs):
                self.fail(f'{name}.__init__ is not a list of assignments to distinct attributes', n)
            attrs[st.targets[0].attr] = sub.purely(lambda: sub.in_ctx('pure', lambda: sub.expr(st.value, env)))
        for a in spec['ignored']:
            v = attrs.pop(a, None)
            if not (v is not None and isinstance(v.ty, tuple) and v.ty[0] == 'DICT' and v.tx == '[]'): self.fail(f'{name}.__init__ does not set .{a} to an empty dict', n)
        fields = {}
        for fa, fty in spec['state']:
            if fa not in attrs: self.fail(f'{name}.__init__ leaves .{fa} unset', n)
            fields[fa] = attrs.pop(fa)
            tr.typed_text(fields[fa], fty)       # (checks the type)
        segs = {a: attrs.pop(a, None) for a in sorted({ab[1] for ab in spec['abstract'] if ab[0] == 'len'})}
        if attrs: self.fail(f'{name}.__init__ sets attributes that are not modelled: {sorted(attrs)}', n)
        if name != 'MinimumCurveDistanceFinder' or any(v is None or v.ty not in SEGN for v in segs.values()): self.fail(f'{name}(..) of {[v.ty if v else None for v in segs.values()]!r}', n)
        b1, b2 = segs['bez1'], segs['bez2']
        n1, n2 = SEGN[b1.ty], SEGN[b2.ty]
        sname = tr.cdf_S(n1, n2)[0]; dname = tr.cdf_D(n1, n2)[0]
        abs_texts = []
        for ab in spec['abstract']:
            if ab[0] == 'len': abs_texts.append(f'({SEGN[segs[ab[1]].ty]})%Z')
            elif ab[1] == 'S': abs_texts.append(f'({sname} O {b1.tx} {b2.tx})')
            elif ab[1] == 'D': abs_texts.append(f'(table_get ({dname} O {b1.tx} {b2.tx}))')
            else: self.fail(f'no instance for the abstracted part {ab[1]}', n)
        return Val(obj_type(name, abs_texts), const={'fields': fields})

    def construct_record(self, name, args, kwargs, n):
        """an instance of a class modelled as a record: the class's __init__ is run on an object with no attribute set"""
        tr = self.tr
        ty = RECORD_OF_CLASS[name]
        _, con, fields = RECORDS[ty]
        if any(a.ty == 'STAR' for a in args): self.fail(f'{name}(*args)', n)
        path, fd, defcls = find_def(name, '__init__')
        tr.fingerprints[f'{path}:{defcls}.__init__'] = fingerprint(fd)
        if fd.args.vararg or fd.args.kwarg or fd.args.kwonlyargs: self.fail(f'{name}.__init__ signature', n)
        vals = self.bindargs(fd, args, kwargs, n, skip_self=True, defpath=path)
        params = [a.arg for a in fd.args.args]
        sub = FunTx(tr, path, name, fd)
        sub.counter = self.counter + 1000 * (1 + len(tr.fingerprints))
        env = {params[0]: Val('UOBJ', const={'cls': name, 'fields': {fa: None for fa, _, _ in fields}})}
        for p, v in zip(params[1:], vals): env[p] = v
        def finish(e):
            o = e[params[0]]
            if o.ty != 'UOBJ': self.fail(f'{name}.__init__ rebinds self', n)
            parts = []
            for fa, fty, _ in fields:
                fv = o.const['fields'][fa]
                if fv is None: self.fail(f'{name}.__init__ leaves .{fa} unset', n)
                parts.append(self.as_type(fv, fty, n))
            return Val(ty, f'({con} {" ".join(parts)})')
        r = sub.in_ctx('pure', lambda: sub.block(fd.body, env, finish, lambda v, e: finish(e) if (v.ty == 'K' and v.const is None) else self.fail(f'{name}.__init__ returns a value', n)))
        if r.ty != ty: self.fail(f'{name}.__init__ does not end with every attribute set', n)
        return r

    def as_type(self, v, t, n=None):
        """text of v as a runtime value of type t (the declared type of a record field / of an accumulator)"""
        tr = self.tr
        if t == 'Z' and v.ty in ('I', 'Z'): return self.Zt(v)
        if t == 'S' and v.ty in ('I', 'S', 'LEN', 'Z'): return tr.S(v)
        if v.ty == 'FL' and not v.items and isinstance(t, tuple) and t[0] in ('L', 'IT'): return '[]'
        if t == 'SEG' and v.ty in SEGN: return f'({[c for c, k in SEGSUM if k == v.ty][0]} {v.tx})'
        if t == 'SEG' and v.ty == 'EDGE': return f'(SLine (fst {v.tx}))'      # round 6: a Line with its `_orig`, as a segment
        if v.ty == 'FL' and isinstance(t, tuple) and t[0] in ('L', 'IT'):
            return '[' + '; '.join(self.as_type(i, t[1], n) for i in v.items) + ']'
        if v.ty in ('FL', 'TUP') and isinstance(t, tuple) and t[0] == 'T' and len(v.items) == len(t[1]):
            # round 4: a Python list / tuple of known length where the declared type is a tuple (nothing may change its length: only indexing is translated)
            return '(' + ', '.join(self.as_type(i, ti, n) for i, ti in zip(v.items, t[1])) + ')'
        if isinstance(t, tuple) and t[0] == 'IT' and isinstance(v.ty, tuple) and v.ty[0] == 'L' and tmatch(v.ty[1], t[1]) is not None: return tr.text(v)
        if isinstance(t, tuple) and t[0] == 'U' and not (isinstance(tr.rtype(v), tuple) and tr.rtype(v)[0] == 'U'):
            return f'(Some {self.as_type(v, t[1], n)})'        # round 5: a value assigned to a variable that may be unbound
        if isinstance(t, tuple) and t[0] == 'O' and not (v.ty == 'K' and v.const is None) and tmatch(tr.rtype(v), t) is None:
            return f'(Some {self.as_type(v, t[1], n)})'        # round 4: a plain value where an Optional one is expected
        if isinstance(t, tuple) and t[0] == 'O' and v.ty == 'K' and v.const is None: return 'None'
        if isinstance(t, tuple) and t[0] == 'T' and isinstance(v.ty, tuple) and v.ty[0] == 'T' and len(t[1]) == len(v.ty[1]) and v.tx is not None and tmatch(v.ty, t) is None:
            # round 4: a run-time tuple whose components have to be coerced one by one
            return '(' + ', '.join(self.as_type(p_, ti, n) for p_, ti in zip(self.tuple_items(v), t[1])) + ')'
        vt = tr.rtype(v)
        if tmatch(vt, t) is None: self.fail(f'a value of type {vt!r} where {t!r} is expected', n)
        return tr.text(v)

    def tuple_items(self, v):
        """the components of a run-time tuple as projections"""
        nn = len(v.ty[1])
        out = []
        for k in range(nn):
            t = v.tx
            for _ in range(nn - 1 - k): t = f'(fst {t})'
            if k > 0: t = f'(snd {t})'
            out.append(Val(v.ty[1][k], t))
        return out

    def inline(self, fd, args, kwargs, n):
        vals = self.bindargs(fd, args, kwargs, n, skip_self=False)
        params = [a.arg for a in fd.args.args]
        env = dict(self.closure_env)
        lets = []
        for p, v in zip(params, vals):
            if v.tx is not None and not self.tr.atomic(v) and v.ty in ('S', 'P'):
                nm = self.fresh('a_' + p)
                lets.append(f'let {nm} := {v.tx} in ')
                env[p] = Val(v.ty, nm)
            else: env[p] = v
        body = self.in_ctx('pure', lambda: self.block(fd.body, env, lambda e: Val('K', const=None), lambda v, e: v))
        if body.ty in ('I', 'K', 'FL', 'TUP'): 
            if lets: self.fail('inlined function returns translation-time structure under lets', n)
            return body
        return Val(self.tr.rtype(body), '(' + ''.join(lets) + self.tr.text(body) + ')')

    # ------------------------------------------------------------------ statements
    def always_returns(self, stmts):
        if not stmts: return False
        s = stmts[-1]
        if isinstance(s, (ast.Return, ast.Raise)): return True
        if isinstance(s, (ast.Break, ast.Continue)): return True       # leaves the statement list (towards the enclosing loop)
        if isinstance(s, ast.If): return self.always_returns(s.body) and self.always_returns(s.orelse)
        return False

    def has_exit(self, stmts):
        """a return, or a break/continue that belongs to a loop OUTSIDE stmts"""
        def walk(x):
            if isinstance(x, (ast.Return, ast.Break, ast.Continue)): return True
            if isinstance(x, (ast.For, ast.While)): return self.has_return([x])
            return any(walk(c) for c in ast.iter_child_nodes(x))
        return any(walk(st) for st in stmts)

    def has_return(self, stmts):
        for s in stmts:
            for x in ast.walk(s):
                if isinstance(x, ast.Return): return True
        return False

    def loads(self, stmts):
        out = set()
        for st in stmts:
            for x in ast.walk(st):
                if isinstance(x, ast.Name): out.add(x.id)
        return out

    def live_after(self, rest):
        out = self.loads(rest)
        for l in self.live_stack: out |= l
        return out

    def with_live(self, names, thunk):
        self.live_stack.append(set(names))
        try: return thunk()
        finally: self.live_stack.pop()

    def assigned(self, stmts, env):
        out = []
        def add(nm):
            if nm not in out: out.append(nm)
        for s in stmts:
            for x in ast.walk(s):
                if isinstance(x, (ast.Assign, ast.AugAssign)):
                    tg = x.targets if isinstance(x, ast.Assign) else [x.target]
                    for t in tg:
                        if isinstance(t, ast.Tuple) and all(isinstance(e_, ast.Name) for e_ in t.elts):
                            for e_ in t.elts: add(e_.id)      # round 6: `a, b = e` assigns every name of the tuple (only the first one was recorded)
                            continue
                        for y in ast.walk(t):
                            if isinstance(y, ast.Name): add(y.id); break
                if isinstance(x, ast.Expr) and isinstance(x.value, ast.Call) and isinstance(x.value.func, ast.Attribute) \
                        and isinstance(x.value.func.value, ast.Name):
                    add(x.value.func.value.id)
                if isinstance(x, ast.For) and isinstance(x.iter, ast.Name) and x.iter.id in env and env[x.iter.id].ty == 'FL': add(x.iter.id)
                if isinstance(x, ast.If) and isinstance(x.test, ast.Compare) and len(x.test.ops) == 1 and isinstance(x.test.ops[0], ast.In) \
                        and isinstance(x.test.comparators[0], ast.Name) and x.test.comparators[0].id in env \
                        and isinstance(env[x.test.comparators[0].id].ty, tuple) and env[x.test.comparators[0].id].ty[0] == 'DICT':
                    add(x.test.comparators[0].id)      # `if k in d: x = d[k]; ..`: the value aliased by x is stored back (dict_alias_idiom)
                if self.cells and isinstance(x, ast.Expr) and isinstance(x.value, ast.Call):
                    # in a function whose deques are referred to by tuples and closures: a method call on / an in-place update of
                    # something that may be a reference to them updates (one of) them
                    fn = x.value.func
                    r = fn.value if isinstance(fn, ast.Attribute) else (x.value.args[0] if isinstance(fn, ast.Name) and x.value.args and self.modfun_path(fn.id)
                                                                         and ('mod:' + self.modfun_path(fn.id), fn.id) in MUTATED_PARAM else None)
                    if isinstance(r, ast.Name) and (r.id not in env or self.is_ref(env[r.id]) or r.id in self.cells):
                        if r.id in self.cells: add(r.id)
                        else:
                            for c_ in self.cells: add(c_)
        return out

    def bind(self, name, v, env, k):
        """emit `let name := v in <k env'>` unless v is translation-time structure or atomic"""
        tr = self.tr
        e2 = dict(env)
        if v.ty == 'PC':      # round 6: the Pyclipper object, known by the paths added to it
            e2[name] = v
            return k(e2)
        if v.ty in ('I', 'K', 'FL', 'TUP', 'LEN', 'UBB') or tr.atomic(v) or (isinstance(v.ty, tuple) and v.ty[0] == 'OBJ' and v.tx is None):
            if v.ty in ('FL', 'TUP'):
                # bind non-atomic components so later uses do not duplicate them
                lets, items = [], []
                for i, it in enumerate(v.items):
                    if it.tx is not None and not tr.atomic(it) and it.ty not in ('FL', 'TUP', 'I', 'K'):
                        nm = self.fresh(f'v_{name}{i}')
                        lets.append((nm, it.tx)); items.append(Val(it.ty, nm))
                    else: items.append(it)
                e2[name] = Val(v.ty, items=items)
                r = k(e2)
                if not lets and r.ty == 'TUP' and self.join_effects: return r      # (round 4: nothing was bound: the result keeps its structure; the earlier rounds' text must not change)
                t = tr.text(r)
                for nm, tx in reversed(lets): t = f'let {nm} := {tx} in\n  {t}'
                return self.retext(r, t)
            e2[name] = v
            return k(e2)
        if isinstance(v.ty, tuple) and v.ty[0] == 'PATHC' and v.tx is None:
            # round 5: a path known by its two components
            lets, items = [], []
            for i, it in enumerate(v.items):
                if it.tx is not None and not tr.atomic(it) and it.ty not in ('I', 'K'):
                    nm = self.fresh(f'v_{name}{i}')
                    lets.append((nm, it.tx)); items.append(Val(it.ty, nm))
                else: items.append(it)
            e2[name] = Val(v.ty, items=items)
            r = k(e2)
            t = tr.text(r)
            for nm, tx in reversed(lets): t = f'let {nm} := {tx} in\n  {t}'
            return self.retext(r, t)
        nm = self.fresh('v_' + name)
        e2[name] = Val(v.ty, nm)
        r = k(e2)
        return self.retext(r, f'let {nm} := {v.tx} in\n  {tr.text(r)}')

    def retext(self, r, t):
        if r.ty == 'K' and r.const is None: return r
        return Val(self.tr.rtype(r), t)

    def block(self, stmts, env, cont, ret):
        if not stmts: return cont(env)
        mark = len(self.pending)
        self.unbound_memo = {}
        return self.flush(mark, self.block1(stmts, env, cont, ret), stmts[0])

    def block1(self, stmts, env, cont, ret):
        tr = self.tr
        s, rest = stmts[0], stmts[1:]
        k = lambda e: self.block(rest, e, cont, ret)
        if isinstance(s, ast.Expr) and isinstance(s.value, ast.Constant): return k(env)
        if isinstance(s, ast.Pass): return k(env)
        if isinstance(s, ast.ImportFrom) and s.module and s.module.startswith('beziers.') and s.level == 0 and self.ctx_stack == ['fun'] and s in self.fd.body:
            # round 5: a function-level `from beziers.x import f` (unaliased, at the top level of the body): f is that module's function
            # from here on -- provided the name is otherwise unused as a variable
            for a_ in s.names:
                if a_.asname is not None or a_.name in env or a_.name in self.localfuns or a_.name == '*': self.fail('function-level import that rebinds or renames a name', s)
                if sum(1 for y in ast.walk(self.fd) if isinstance(y, ast.Name) and y.id == a_.name and isinstance(y.ctx, (ast.Store, ast.Del))): self.fail(f'{a_.name} is imported and assigned', s)
                p_ = s.module.split('.', 1)[1].replace('.', '/')
                self.local_imports[a_.name] = p_ + '.py' if os.path.exists(os.path.join(SRC, p_ + '.py')) else p_ + '/__init__.py'
            return k(env)
        if isinstance(s, (ast.Import, ast.ImportFrom)): return k(env)
        if isinstance(s, ast.Return):
            v = self.expr(s.value, env) if s.value is not None else Val('K', const=None)
            return ret(v, env)
        if isinstance(s, ast.Raise):
            # raise ValueError(<literal>) / IndexError(<literal>) in a function declared to raise, at statement level of the function
            # body or of a loop translated with fold_outcome (the message is not modelled)
            x = s.exc
            if 'exc' in self.effects and s.cause is None and isinstance(x, ast.Call) and isinstance(x.func, ast.Name) and x.func.id in PYEXC \
                    and x.func.id not in env and x.func.id not in self.localfuns and not x.keywords and all(isinstance(a, ast.Constant) for a in x.args) \
                    and self.ctx_stack[-1] in ('fun', 'foldx') and self.pure_depth == 0:
                self.occurred.add('exc')
                ty = mtype(self.effects, '?')
                return Val(ty, self.raise_text(PYEXC[x.func.id]))
            self.fail('reachable raise', s)
        if isinstance(s, ast.Assert):
            # only an assertion that is true at translation time (isinstance of a value whose class is known)
            c = self.purely(lambda: self.truth(self.expr(s.test, env), s))
            if c.ty == 'K' and c.const is True: return k(env)
            if c.ty == 'B' and 'exc' in self.effects and s.msg is None and self.ctx_stack[-1] in ('fun', 'foldx') and self.pure_depth == 0:
                # round 4: a run-time assertion (the interpreter is assumed not to run with -O): AssertionError when it fails
                self.occurred.add('exc')
                r = k(env)
                if r.ty == 'K' and r.const is None: self.fail('assert on a path that returns None', s)
                if is_mtype(tr.rtype(r)) is None: raise EffectInJoin(f'{self.path}:{s.lineno} ({self.fd.name}): assert where the continuation is not a function result')
                return self.retext(r, f'(if {c.tx} then\n  {tr.text(r)}\n  else {self.raise_text("PyAssertionError")})')
            self.fail('assert that is not a translation-time truth', s)
        if isinstance(s, ast.FunctionDef):
            self.localfuns[s.name] = s
            self.closure_env = env
            return k(env)
        if isinstance(s, ast.Assign):
            if len(s.targets) != 1: self.fail('multiple targets', s)
            t = s.targets[0]
            sv = s.value
            if isinstance(t, ast.Attribute) and t.attr == '_range': return self.range_assign(s, env, k)
            if isinstance(sv, ast.Call) and isinstance(sv.func, ast.Attribute) and isinstance(sv.func.value, ast.Name) and sv.func.value.id in env \
                    and isinstance(env[sv.func.value.id].ty, tuple) and env[sv.func.value.id].ty[0] == 'OBJ' and (env[sv.func.value.id].ty[1], sv.func.attr) in STATEFUL:
                # round 4: x = obj.m(..), m a method that updates obj: the call yields (value, new state); obj is rebound to the new state
                X = sv.func.value.id
                if any(isinstance(y, ast.Name) and y.id == X for a_ in list(sv.args) + [kw.value for kw in sv.keywords] for y in ast.walk(a_)):
                    self.fail(f'{X} is also an argument of the call that updates it', s)
                self.in_stateful_call = True
                try: res = self.expr(sv, env)
                finally: self.in_stateful_call = False
                ent = self.pending[-1] if self.pending else None
                if ent is None or ent.get('pat') != res.tx or not (isinstance(res.ty, tuple) and res.ty[0] == 'T' and len(res.ty[1]) == 2 and isinstance(res.ty[1][1], tuple) and res.ty[1][1][:2] == env[X].ty[:2]):
                    self.fail('a state-changing call that is not the last effect of its statement', s)
                r1, st = self.fresh('r'), self.fresh('v_' + X)
                ent['pat'] = f'({r1}, {st})'
                e2 = dict(env); e2[X] = Val(env[X].ty, st)
                return self.assign(t, Val(res.ty[1][0], r1), e2, k, s)
            fi = self.filter_idiom(s, rest, env)
            if fi is not None: return self.filter_fold(s, fi, env, lambda e: self.block(rest, e, cont, ret))
            if isinstance(t, ast.Name) and isinstance(sv, ast.Call) and isinstance(sv.func, ast.Attribute) and sv.func.attr == 'pop' \
                    and isinstance(sv.func.value, ast.Name) and sv.func.value.id in env and not sv.keywords and len(sv.args) == 1 \
                    and isinstance(sv.args[0], ast.Constant) and type(sv.args[0].value) is int and sv.args[0].value == 0 and t.id != sv.func.value.id:
                # x = l.pop(0): only where l is known to be h :: t (under a test of its emptiness)
                L = sv.func.value.id
                lv = env[L]
                if not (isinstance(lv.ty, tuple) and lv.ty[0] == 'L' and isinstance(lv.const, tuple) and lv.const[0] == 'cons'):
                    self.fail('x = l.pop(0) from a list not known to be non-empty', s)
                e2 = dict(env); e2[L] = Val(lv.ty, lv.const[2])
                return self.bind(t.id, Val(lv.ty[1], lv.const[1]), e2, k)
            if isinstance(t, ast.Attribute) and t.attr == 'activeRepresentation' and isinstance(t.value, ast.Name) and t.value.id in env \
                    and isinstance(env[t.value.id].ty, tuple) and env[t.value.id].ty[0] == 'PATHC' and env[t.value.id].tx is None and self.key == ('BezierPath', 'fromPoints'):
                # round 6: path.activeRepresentation = SegmentRepresentation(path, segs) on a path the function has built itself: from now on
                # path.asSegments() is what SegmentRepresentation.__init__ keeps of segs -- segs itself when it is truthy, else a fresh []
                X = t.value.id
                if not (isinstance(sv, ast.Call) and isinstance(sv.func, ast.Name) and sv.func.id == 'SegmentRepresentation' and sv.func.id not in env
                        and self.names_class('SegmentRepresentation') and not sv.keywords and len(sv.args) == 2
                        and isinstance(sv.args[0], ast.Name) and sv.args[0].id == X and isinstance(sv.args[1], ast.Name)):
                    self.fail('activeRepresentation set to anything but SegmentRepresentation(<the path itself>, <a variable>)', s)
                pth, fdi, dc = find_def('SegmentRepresentation', '__init__')
                want = ast.parse('def __init__(self, path, segments=[]):\n    self.path = path\n    from beziers.path import BezierPath\n\n    assert isinstance(path, BezierPath)\n    self.segments = []\n    if segments:\n        self.segments = segments').body[0]
                if ast.dump(fdi) != ast.dump(want): self.fail('SegmentRepresentation.__init__ is not the constructor the model was written for', s)
                self.tr.fingerprints['path/representations/Segment.py:SegmentRepresentation.__init__'] = fingerprint(fdi)
                self.tr.fingerprints['path/representations/Segment.py:SegmentRepresentation.data'] = fingerprint(find_def('SegmentRepresentation', 'data')[1])
                self.tr.fingerprints['path/__init__.py:BezierPath.asSegments'] = fingerprint(find_def('BezierPath', 'asSegments')[1])
                segs = self.expr(sv.args[1], env)
                S_ = sv.args[1].id
                if any(isinstance(y, ast.Name) and y.id == S_ for st in rest for y in ast.walk(st)): self.fail(f'the list {S_} is used after it was handed to SegmentRepresentation', s)
                st_ = tr.rtype(segs)
                if isinstance(st_, tuple) and st_[0] == 'O' and isinstance(st_[1], tuple) and st_[1][0] == 'L' and st_[1][1] in SEGN:
                    lv = Val(st_[1], f'(match {segs.tx} with None => [] | Some l_ => l_ end)')       # None and [] are falsy: a fresh []
                elif isinstance(st_, tuple) and st_[0] == 'L' and st_[1] in SEGN: lv = Val(st_, tr.text(segs))
                else: self.fail(f'SegmentRepresentation of a {st_!r}', s)
                return self.bind(X, Val(('PATHC', lv.ty[1]), items=[lv, env[X].items[1]]), env, k)
            if isinstance(t, ast.Attribute) and t.attr == 'activeRepresentation' and isinstance(t.value, ast.Name) and t.value.id in env \
                    and env[t.value.id].ty == 'PATH':
                # path.activeRepresentation = SegmentRepresentation(path, segs): from now on path.asSegments() is segs (SegmentRepresentation
                # stores the list -- or a fresh [] when it is empty -- and data() hands it back): the path, as the list of its segments, is segs
                X = t.value.id
                if not (isinstance(sv, ast.Call) and isinstance(sv.func, ast.Name) and sv.func.id == 'SegmentRepresentation' and sv.func.id not in env
                        and self.names_class('SegmentRepresentation') and not sv.keywords and len(sv.args) == 2
                        and isinstance(sv.args[0], ast.Name) and sv.args[0].id == X):
                    self.fail('activeRepresentation set to anything but SegmentRepresentation(<the path itself>, <segments>)', s)
                self.tr.fingerprints['path/representations/Segment.py:SegmentRepresentation.__init__'] = fingerprint(find_def('SegmentRepresentation', '__init__')[1])
                self.tr.fingerprints['path/representations/Segment.py:SegmentRepresentation.data'] = fingerprint(find_def('SegmentRepresentation', 'data')[1])
                segs = self.expr(sv.args[1], env)
                return self.bind(X, Val('PATH', self.as_type(segs, ('L', 'SEG'), s)), env, k)
            if isinstance(t, ast.Name) and isinstance(sv, ast.Call) and isinstance(sv.func, ast.Attribute) and sv.func.attr == 'popleft' \
                    and isinstance(sv.func.value, ast.Name) and sv.func.value.id in env and not sv.args and not sv.keywords:
                # x = d.popleft(), d a deque: IndexError when d is empty, else x is its first item and d loses it
                D = sv.func.value.id
                dv = env[D]
                if not (isinstance(dv.ty, tuple) and dv.ty[0] == 'DQ' and dv.ty[1] != '?' and dv.tx is not None): self.fail(f'popleft on a {dv.ty!r}', s)
                h, tl = self.fresh(f'v_{D}_hd'), self.fresh(f'v_{D}_tl')
                self.push_effect({'effects': {'exc'}, 'what': 'deque.popleft() (IndexError)', 'kind': 'popleft', 'text': dv.tx, 'pat': f'{h} :: {tl}'}, s)
                e2 = dict(env); e2[D] = Val(dv.ty, tl)
                return self.bind(t.id, Val(dv.ty[1], h), e2, k)
            v = self.ref_or_value(s.value, env) if isinstance(t, ast.Name) else self.expr(s.value, env)
            if self.unbound_memo:
                # round 5: the statement has read variables that might have been unbound: from here on they are known to be bound
                env = dict(env)
                for nm_, (tx_, val_) in self.unbound_memo.items():
                    if nm_ in env and env[nm_].tx == tx_ and not (isinstance(t, ast.Name) and t.id == nm_): env[nm_] = val_
            nx = rest[0] if rest else None
            if isinstance(t, ast.Name) and isinstance(nx, ast.Assign) and len(nx.targets) == 1 and isinstance(nx.targets[0], ast.Attribute) \
                    and nx.targets[0].attr == '_orig' and isinstance(nx.targets[0].value, ast.Name) and nx.targets[0].value.id == t.id:
                # x = Line(..); x._orig = c   -- the new Line, tagged: an EDGE.  Only for a Line built on the spot (nothing else refers to it)
                if not (isinstance(s.value, ast.Call) and isinstance(s.value.func, ast.Name) and s.value.func.id == 'Line' and 'Line' not in env and v.ty == 'seg2'):
                    self.fail('_orig set on something that is not a Line constructed by the previous statement', nx)
                o = self.expr(nx.value, env)
                if o.ty not in SEGN: self.fail(f'_orig set to a {o.ty!r}', nx)
                ev = Val('EDGE', f'({v.tx}, Some ({[c for c, kd in SEGSUM if kd == o.ty][0]} {o.tx}))')
                return self.bind(t.id, ev, env, lambda e: self.block(rest[1:], e, cont, ret))
            return self.assign(t, v, env, k, s)
        if isinstance(s, ast.AugAssign):
            if isinstance(s.target, ast.Attribute) and isinstance(s.target.value, ast.Name) and s.target.value.id in env \
                    and env[s.target.value.id].ty == 'P' and s.target.attr in ('x', 'y'):
                # p.x += e  is  p.x = p.x + e  (the attribute of a float is a float: no in-place operator involved)
                cur = self.expr(s.target, env)
                v = self.binop(type(s.op).__name__, cur, self.expr(s.value, env), s)
                return self.assign(s.target, v, env, k, s)
            if isinstance(s.target, ast.Subscript) and self.fixed_list_target(s.target, env) is not None:
                # round 6: X[i][j] += e, X a list literal of fixed shape: X[i][j] = X[i][j] + e (the items are floats: no in-place operator involved)
                cur = self.expr(s.target, env)
                v = self.binop(type(s.op).__name__, cur, self.expr(s.value, env), s)
                return self.assign(s.target, v, env, k, s)
            if not isinstance(s.target, ast.Name): self.fail('augmented assignment to non-name', s)
            cur = self.expr(s.target, env)
            v = self.binop(type(s.op).__name__, cur, self.expr(s.value, env), s)
            return self.bind(s.target.id, v, env, k)
        if isinstance(s, ast.Expr) and isinstance(s.value, ast.Call):
            return self.stmt_call(s.value, env, k, s)
        if isinstance(s, ast.If):
            da = self.dict_append_idiom(s, rest, env)
            if da is not None:
                D, kn, xn = da
                d = env[D]
                kv, xv = self.expr(kn, env), self.expr(xn, env)
                kt = tmatch(d.ty[1], tr.rtype(kv))
                vt = tmatch(d.ty[2], ('L', tr.rtype(xv)))
                if kt is None or kt == '?' or vt is None: self.fail(f'd[k].append(x) with k : {tr.rtype(kv)!r}, x : {tr.rtype(xv)!r} in a {d.ty!r}', s)
                nv = Val(('DICT', kt, vt), f'(dict_append {self.keyeq(kt, s)} {d.tx} {tr.text(kv)} {self.as_type(xv, vt[1], s)})')
                return self.bind(D, nv, env, lambda e: self.block(rest[1:], e, cont, ret))
            return self.stmt_if(s, rest, env, cont, ret)
        if isinstance(s, ast.For):
            return self.stmt_for(s, rest, env, cont, ret)
        if isinstance(s, ast.While):
            return self.stmt_while(s, rest, env, cont, ret)
        if isinstance(s, (ast.Break, ast.Continue)):
            if not self.loop_stack or self.loop_stack[-1] is None: self.fail(f'{type(s).__name__.lower()} outside a while loop', s)
            return self.loop_stack[-1][0 if isinstance(s, ast.Break) else 1](env)
        self.fail(f'statement {type(s).__name__}', s)

    def assign(self, t, v, env, k, s):
        tr = self.tr
        if isinstance(t, ast.Name):
            return self.bind(t.id, v, env, k)
        if isinstance(t, ast.Tuple):
            names = []
            for e in t.elts:
                if not isinstance(e, ast.Name): self.fail('nested unpacking', s)
                names.append(e.id)
            if v.ty in ('TUP', 'FL'):
                if len(v.items) != len(names): self.fail('unpack arity', s)
                def go(i, e):
                    if i == len(names): return k(e)
                    return self.bind(names[i], v.items[i], e, lambda e2: go(i + 1, e2))
                return go(0, env)
            if isinstance(v.ty, tuple) and v.ty[0] == 'T' and len(v.ty[1]) == len(names):
                e2 = dict(env)
                pat = None
                for nm, ty in zip(names, v.ty[1]):
                    fn = self.fresh('v_' + nm)
                    e2[nm] = Val(ty, fn)
                    pat = fn if pat is None else f'({pat}, {fn})'
                r = k(e2)
                return self.retext(r, f"let '{pat} := {v.tx} in\n  {tr.text(r)}")
            self.fail(f'unpack of {v.ty!r}', s)
        if isinstance(t, ast.Attribute) and isinstance(t.value, ast.Name) and t.value.id in env:
            recv = env[t.value.id]
            if recv.ty == 'M' and t.attr == 'matrix':
                if v.ty == 'FL':
                    es = [tr.S(e) for r in v.items for e in r.items]
                    if len(es) != 9: self.fail('matrix literal shape', s)
                    v = Val('M', f'(M3 {" ".join(es)})')
                if v.ty != 'M': self.fail('matrix assignment', s)
                return self.bind(t.value.id, v, env, k)
            if recv.ty == 'P' and t.attr in ('x', 'y'):
                nv = Val('P', f'(P {tr.S(v)} (py {recv.tx}))' if t.attr == 'x' else f'(P (px {recv.tx}) {tr.S(v)})')
                return self.bind(t.value.id, nv, env, k)
            if recv.ty == 'BB' and t.attr in ('bl', 'tr') and v.ty == 'P':
                nv = Val('BB', f'(BB {v.tx} (tr {recv.tx}))' if t.attr == 'bl' else f'(BB (bl {recv.tx}) {v.tx})')
                return self.bind(t.value.id, nv, env, k)
            if recv.ty in SEGN and t.attr == 'points':
                # self.points = [...]: the new list must have exactly the points of this class of segment
                if v.ty != 'FL' or len(v.items) != SEGN[recv.ty] or any(p.ty != 'P' for p in v.items): self.fail('assignment to .points', s)
                return self.bind(t.value.id, Val(recv.ty, f'({SEGCON[SEGN[recv.ty]]} {" ".join(p.tx for p in v.items)})'), env, k)
            if recv.ty == 'UOBJ':
                # self.attr = v inside the __init__ of a class modelled as a record
                if t.attr not in recv.const['fields']: self.fail(f'{recv.const["cls"]} has no modelled attribute .{t.attr}', s)
                fty = [f[1] for f in RECORDS[RECORD_OF_CLASS[recv.const['cls']]][2] if f[0] == t.attr][0]
                if isinstance(fty, tuple) and fty[0] == 'L' and not (v.ty == 'FL' and not v.items):
                    self.fail(f'.{t.attr} is set to a list that may be shared with another object (only a fresh [] is modelled)', s)
                nv = v if (v.ty == 'FL' and not v.items) else Val(fty, self.as_type(v, fty, s))
                e2 = dict(env); e2[t.value.id] = Val('UOBJ', const={'cls': recv.const['cls'], 'fields': dict(recv.const['fields'], **{t.attr: nv})})
                return k(e2)
            if recv.ty in RECORDS:
                return self.bind(t.value.id, self.with_field(recv, t.attr, v, s), env, k)
            if isinstance(recv.ty, tuple) and recv.ty[0] == 'PATHC' and t.attr == 'closed':
                # round 5: p.closed = v, p a path the function has built itself (known by its components: nothing else refers to it)
                if recv.tx is not None: self.fail('.closed set on a path that the function has not built itself', s)
                self.path_init_closed(s)
                if tr.rtype(v) != 'B': self.fail(f'.closed set to a {tr.rtype(v)!r}', s)
                return self.bind(t.value.id, Val(recv.ty, items=[recv.items[0], v]), env, k)
            if isinstance(recv.ty, tuple) and recv.ty[0] == 'OBJ':
                # round 4: self.a = v on an object with mutable attributes: the same object with the attribute replaced
                st = dict(OBJECTS[recv.ty[1]]['state'])
                if t.attr not in st: self.fail(f'{recv.ty[1]} has no mutable attribute .{t.attr} in the model', s)
                tr.typed_text(v, st[t.attr])        # (checks the type)
                fields = self.obj_fields(recv)
                e2 = dict(env)
                if v.ty in ('I', 'K') or tr.atomic(v):
                    fields[t.attr] = v
                    e2[t.value.id] = Val(recv.ty, const={'fields': fields})
                    return k(e2)
                nm = self.fresh(f'v_{t.value.id}_{t.attr}')
                fields[t.attr] = Val(v.ty, nm)
                e2[t.value.id] = Val(recv.ty, const={'fields': fields})
                r = k(e2)
                return self.retext(r, f'let {nm} := {v.tx} in\n  {tr.text(r)}')
            if recv.ty == 'UBB' and t.attr in UNSET_BOX and v.ty == 'P':
                fields = dict(recv.const)
                if all(fields[c] is not None for c in UNSET_BOX if c != t.attr):
                    fields[t.attr] = v      # now both corners are set: an ordinary box
                    return self.bind(t.value.id, Val('BB', f'(BB {fields["bl"].tx} {fields["tr"].tx})'), env, k)
                if tr.atomic(v):
                    fields[t.attr] = v
                    e2 = dict(env); e2[t.value.id] = Val('UBB', const=fields)
                    return k(e2)
                nm = self.fresh(f'v_{t.value.id}_{t.attr}')
                fields[t.attr] = Val('P', nm)
                e2 = dict(env); e2[t.value.id] = Val('UBB', const=fields)
                r = k(e2)
                return self.retext(r, f'let {nm} := {v.tx} in\n  {tr.text(r)}')
        if isinstance(t, ast.Subscript) and isinstance(t.value, ast.Name) and t.value.id in env and isinstance(env[t.value.id].ty, tuple) \
                and env[t.value.id].ty[0] == 'DICT' and not isinstance(t.slice, ast.Slice):
            # d[k] = v
            d = env[t.value.id]
            kv = self.expr(t.slice, env)
            kt = tmatch(d.ty[1], tr.rtype(kv))
            vt = tmatch(d.ty[2], tr.rtype(v))
            if kt is None or kt == '?' or vt is None: self.fail(f'd[k] = v with k : {tr.rtype(kv)!r}, v : {tr.rtype(v)!r} in a {d.ty!r}', s)
            return self.bind(t.value.id, Val(('DICT', kt, vt), f'(dict_set {self.keyeq(kt, s)} {d.tx} {tr.text(kv)} {tr.text(v)})'), env, k)
        if isinstance(t, ast.Subscript) and self.fixed_list_target(t, env) is not None:
            # round 6: X[i][j] = v, X a list literal of fixed shape kept as translation-time structure: the same structure with the item replaced
            X, idx = self.fixed_list_target(t, env)
            if tr.rtype(v) != 'S': self.fail(f'item of a list of floats set to a {tr.rtype(v)!r}', s)
            lets = []
            if v.ty == 'S' and not tr.atomic(v):
                nm = self.fresh(f'v_{X}'); lets.append((nm, v.tx)); v = Val('S', nm)
            def put(fl, idx):
                kk = idx[0] if idx[0] >= 0 else idx[0] + len(fl.items)
                if fl.ty != 'FL' or not 0 <= kk < len(fl.items): self.fail('item assignment out of range', s)
                items = list(fl.items)
                items[kk] = v if len(idx) == 1 else put(items[kk], idx[1:])
                return Val('FL', items=items)
            e2 = dict(env); e2[X] = put(env[X], idx)
            r = k(e2)
            for nm, tx in reversed(lets): r = self.retext(r, f'let {nm} := {tx} in\n  {tr.text(r)}')
            return r
        if isinstance(t, ast.Subscript) and isinstance(t.value, ast.Name) and t.value.id in env and env[t.value.id].ty in SEGN \
                and not isinstance(t.slice, ast.Slice):
            # seg[k] = point  (Segment.__setitem__: self.points[key] = item)
            recv = env[t.value.id]
            i = self.expr(t.slice, env)
            if i.ty != 'I' or v.ty != 'P': self.fail('segment item assignment', s)
            kk = i.const if i.const >= 0 else i.const + SEGN[recv.ty]
            if not 0 <= kk < SEGN[recv.ty]: self.fail('segment index out of range', s)
            pts = [f'({pj} {recv.tx})' for pj in SEGPROJ[recv.ty]]
            pts[kk] = v.tx
            return self.bind(t.value.id, Val(recv.ty, f'({SEGCON[SEGN[recv.ty]]} {" ".join(pts)})'), env, k)
        if isinstance(t, ast.Attribute) and isinstance(t.value, ast.Attribute) and isinstance(t.value.value, ast.Name) \
                and t.value.value.id in env:
            # self.bl.x = v : in-place update of a coordinate of a corner
            nm = t.value.value.id
            recv = env[nm]
            if recv.ty == 'BB' and t.value.attr in ('bl', 'tr') and t.attr in ('x', 'y'):
                self.check_corner_ownership(s)
                c = t.value.attr
                np = f'(P {tr.S(v)} (py ({c} {recv.tx})))' if t.attr == 'x' else f'(P (px ({c} {recv.tx})) {tr.S(v)})'
                nv = Val('BB', f'(BB {np} (tr {recv.tx}))' if c == 'bl' else f'(BB (bl {recv.tx}) {np})')
                return self.bind(nm, nv, env, k)
        self.fail('assignment target', s)

    def fixed_list_shape(self, name):
        """round 6: is `name` a local variable bound exactly once, to a list literal of floats or (nested) of list literals of floats, every
        other occurrence of which is subscripted down to a float (X[i] / X[i][j], to read or to store)?  Then no inner list is ever
        aliased, handed on or resized: the value is translation-time structure whose items are updated one by one.  Returns the
        nesting depth, or None."""
        if not self.bound_once(name): return None
        pm = self.parent_map()
        st = [x for x in ast.walk(self.fd) if isinstance(x, ast.Name) and x.id == name and isinstance(x.ctx, ast.Store)][0]
        lit = pm[st].value
        def depth(x):
            if not isinstance(x, ast.List) or not x.elts: return None
            if all(not isinstance(e, (ast.List, ast.Tuple, ast.Starred, ast.ListComp, ast.Dict, ast.Name, ast.Call, ast.Attribute, ast.Subscript)) for e in x.elts): return 1
            ds = {depth(e) for e in x.elts}
            return None if (None in ds or len(ds) != 1) else 1 + ds.pop()
        d = depth(lit)
        if d is None: return None
        for x in ast.walk(self.fd):
            if isinstance(x, ast.Name) and x.id == name and x is not st:
                c, pa, n = x, pm.get(x), 0
                while isinstance(pa, ast.Subscript) and pa.value is c and not isinstance(pa.slice, ast.Slice):
                    n += 1; c, pa = pa, pm.get(pa)
                if n != d: return None
        return d

    def fixed_list_target(self, t, env):
        """round 6: t = X[i]..[j] with X a fixed-shape list literal (fixed_list_shape) held as translation-time structure and literal int
        indices down to a float -> (X, [i, .., j])"""
        path, base = [], t
        while isinstance(base, ast.Subscript) and not isinstance(base.slice, ast.Slice):
            path.append(base.slice); base = base.value
        if not (isinstance(base, ast.Name) and base.id in env and env[base.id].ty == 'FL'): return None
        d = self.fixed_list_shape(base.id)
        if d is None or d != len(path): return None
        idx = []
        for x in reversed(path):
            if not (isinstance(x, ast.Constant) and type(x.value) is int): return None
            idx.append(x.value)
        return base.id, idx

    def fl_tuple_type(self, v):
        """round 6: the tuple type that carries a fixed-shape list of floats through a loop"""
        if v.ty == 'FL' and v.items: 
            ts = [self.fl_tuple_type(i) for i in v.items]
            return None if any(t is None for t in ts) else ('T', tuple(ts))
        return 'S' if v.ty in ('S', 'I') else None

    def fl_fresh(self, t, base):
        """round 6: (a list value of the shape t whose items are fresh names, the pattern that binds them)"""
        if t == 'S':
            nm = self.fresh(base); return Val('S', nm), nm
        parts = [self.fl_fresh(x, base) for x in t[1]]
        pat = None
        for _, p_ in parts: pat = p_ if pat is None else f'({pat}, {p_})'
        return Val('FL', items=[v for v, _ in parts]), pat

    def range_assign(self, s, env, k):
        """round 4: `x._range = [lo, hi]`, x a local variable holding a curve that splitAtTime has just created: from here on x is the
        curve with that range, ('RNG', t).  The object must not be reachable from anywhere else (the model has values, Python an
        object that others could see change): x was bound by `a, b = <e>.splitAtTime(<t>)` at the top level of the function and no
        statement between that one and this one mentions x."""
        t = s.targets[0]
        if not (isinstance(t.value, ast.Name) and t.value.id in env): self.fail('_range set on something that is not a local variable', s)
        X = t.value.id
        recv = env[X]
        if recv.ty not in ('seg3', 'seg4'): self.fail(f'_range set on a {recv.ty!r}', s)
        body = self.fd.body
        j = next((i for i, st in enumerate(body) if st is s), None)
        i = next((i for i, st in enumerate(body) if isinstance(st, ast.Assign) and len(st.targets) == 1 and isinstance(st.targets[0], ast.Tuple)
                  and any(isinstance(e, ast.Name) and e.id == X for e in st.targets[0].elts)), None)
        if i is None or j is None or i >= j: self.fail(f'_range set on {X}, which is not the fresh result of a splitAtTime unpacked at the top level of the function', s)
        b = body[i]
        if not (isinstance(b.value, ast.Call) and isinstance(b.value.func, ast.Attribute) and b.value.func.attr == 'splitAtTime'
                and all(isinstance(e, ast.Name) for e in b.targets[0].elts) and len({e.id for e in b.targets[0].elts}) == len(b.targets[0].elts)):
            self.fail(f'_range set on {X}, which is not the fresh result of a splitAtTime', s)
        if sum(1 for x in ast.walk(self.fd) if isinstance(x, ast.Name) and x.id == X and isinstance(x.ctx, (ast.Store, ast.Del))) != 1 or X in [a.arg for a in self.fd.args.args]:
            self.fail(f'{X} is bound more than once', s)
        for st in body[i + 1:j]:
            if any(isinstance(x, ast.Name) and x.id == X for x in ast.walk(st)): self.fail(f'{X} is used between its creation and the assignment of its _range', s)
        v = self.expr(s.value, env)
        if v.ty != 'FL' or len(v.items) != 2 or any(it.ty not in ('S', 'I') for it in v.items): self.fail('_range set to something that is not a list of two numbers', s)
        lo, hi = [self.tr.S(it) for it in v.items]
        return self.bind(X, Val(('RNG', recv.ty), f'(Ranged {recv.tx} {lo} {hi})'), env, k)

    def filter_idiom(self, s, rest, env):
        """round 4: `Y = filter(F, L)` immediately followed by `return Y`, the last two statements of the function; F a local function
        of one parameter, L a local list.  Returns (F's FunctionDef, L, the captured variables F updates in place) or None.

        filter() is lazy: F runs when the CALLER consumes the iterator.  Nothing of this function runs after the return, so the
        result is the list an eager filter produces provided that what F reads and updates cannot be seen or changed by anyone else
        in between: every captured variable F updates is a local dict bound once, by `D = {}`, and mentioned nowhere outside F; the
        list L is a local variable bound by `L = []` and otherwise only updated by .append / .extend statements (so it is reachable
        from nowhere else).  F's body is translated as a pure function (filter_fold): it cannot raise, loop or call anything
        effectful.  The caller gets an ('IT', t): it can only iterate it once, where it receives it."""
        t = s.targets[0]
        v = s.value
        if not (isinstance(t, ast.Name) and isinstance(v, ast.Call) and isinstance(v.func, ast.Name) and v.func.id == 'filter'): return None
        if 'filter' in env or 'filter' in self.localfuns: return None
        if v.keywords or len(v.args) != 2 or not all(isinstance(a, ast.Name) for a in v.args): self.fail('filter(..) of anything but a local function and a local list', s)
        F, L = v.args[0].id, v.args[1].id
        if F not in self.localfuns or L not in env: self.fail('filter(..) of anything but a local function and a local list', s)
        if not (len(rest) == 1 and isinstance(rest[0], ast.Return) and isinstance(rest[0].value, ast.Name) and rest[0].value.id == t.id
                and len(self.fd.body) >= 2 and self.fd.body[-1] is rest[0] and self.fd.body[-2] is s):
            self.fail('filter(..) whose lazy result is not returned at once, at the end of the function', s)
        fd = self.localfuns[F]
        a = fd.args
        if a.vararg or a.kwarg or a.kwonlyargs or a.defaults or getattr(a, 'posonlyargs', None) or len(a.args) != 1: self.fail(f'{F}: only one plain parameter', s)
        for x in ast.walk(fd):
            if isinstance(x, (ast.Nonlocal, ast.Global, ast.Yield, ast.YieldFrom, ast.Await, ast.Lambda)) or (isinstance(x, ast.FunctionDef) and x is not fd):
                self.fail(f'{F}: {type(x).__name__} in a filter predicate', x)
        param = a.args[0].arg
        own = {y.id for x in fd.body for y in ast.walk(x) if isinstance(y, ast.Name) and isinstance(y.ctx, (ast.Store, ast.Del))} | {param}
        carried = [nm for nm in self.assigned(fd.body, env) if nm not in own]
        for nm in carried:
            if nm not in env: self.fail(f'{F} updates {nm}, which is not a local variable', s)
            d = env[nm]
            if not (isinstance(d.ty, tuple) and d.ty[0] == 'DICT'): self.fail(f'{F} updates {nm}, a {d.ty!r} (only a local dict is modelled)', s)
            inside = {id(y) for y in ast.walk(fd)}
            occ = [y for y in ast.walk(self.fd) if isinstance(y, ast.Name) and y.id == nm and id(y) not in inside]
            binds = [st for st in self.fd.body if isinstance(st, ast.Assign) and len(st.targets) == 1 and isinstance(st.targets[0], ast.Name) and st.targets[0].id == nm
                     and isinstance(st.value, ast.Dict) and not st.value.keys]
            if len(occ) != 1 or len(binds) != 1 or occ[0] is not binds[0].targets[0] or nm in [p.arg for p in self.fd.args.args]:
                self.fail(f'the dict {nm} that {F} updates is visible outside {F}', s)
        if own & set(carried): self.fail(f'{F} rebinds a variable it updates in place', s)
        # the list: bound by `L = []`, then only .append / .extend statements, the filter call and the rebinding of the result
        lv = env[L]
        if not ((isinstance(lv.ty, tuple) and lv.ty[0] == 'L' and lv.tx is not None) or lv.ty == 'FL'): self.fail(f'filter over {L}, a {lv.ty!r}', s)
        parent = {}
        for x in ast.walk(self.fd):
            for c in ast.iter_child_nodes(x): parent[c] = x
        for y in ast.walk(self.fd):
            if not (isinstance(y, ast.Name) and y.id == L): continue
            pa = parent.get(y)
            ok = (isinstance(pa, ast.Assign) and pa.targets == [y] and ((isinstance(pa.value, ast.List) and not pa.value.elts) or pa is s)) \
                or (isinstance(pa, ast.Attribute) and pa.attr in ('append', 'extend') and isinstance(parent.get(pa), ast.Call) and parent[pa].func is pa
                    and isinstance(parent.get(parent[pa]), ast.Expr)) \
                or (pa is v) or (pa is rest[0] and t.id == L)
            if not ok: self.fail(f'the list {L} handed to filter(..) may be reachable from elsewhere', y)
        if L in [p.arg for p in self.fd.args.args]: self.fail(f'filter over the parameter {L}', s)
        return fd, L, carried

    def filter_fold(self, s, fi, env, k):
        """round 4: the eager reading of `Y = filter(F, L)` (see filter_idiom)

            let '(D.., Y) := fold_left (fun '(D.., keep) x => let '(D'.., b) := <body of F> in (D'.., if b then keep ++ [x] else keep)) L (D.., []) in ..

        (with no captured state: List.filter).  F's `return e` is the pair (the state there, e); falling off its end returns None: falsy."""
        tr = self.tr
        fd, L, carried = fi
        lv = env[L]
        if lv.ty == 'FL': lv = Val(tr.rtype(lv), tr.text(lv))
        if lv.ty[1] == '?': self.fail(f'filter over a list of unknown element type', s)
        et = lv.ty[1]
        param = fd.args.args[0].arg
        x = 'v_' + param
        inner = {nm: self.fresh('v_' + nm) for nm in carried}
        e1 = dict(env)
        e1[param] = Val(et, x)
        for nm in carried: e1[nm] = Val(env[nm].ty, inner[nm])
        def out(b, e):
            bt = self.truth(b, s) if not (b.ty == 'K' and b.const is None) else Val('K', const=False)
            return Val('TUP', items=[self.need(e, nm, s) for nm in carried] + [bt])
        saved = self.localfuns
        self.localfuns = {}
        try:
            body = self.purely(lambda: self.in_ctx('pure', lambda: self.with_live(carried, lambda: self.block(fd.body, e1, lambda e: out(Val('K', const=None), e), lambda v, e: out(v, e)))))
        finally:
            self.localfuns = saved
        Y = s.targets[0].id
        if not carried:
            bt = tr.text(body.items[0]) if body.ty == 'TUP' else f'(let \'b_ := {tr.text(body)} in b_)'
            return self.bind(Y, Val(('IT', et), f'(filter (fun {x} => {bt}) {lv.tx})'), env, k)
        bty = tr.rtype(body)
        if not (isinstance(bty, tuple) and bty[0] == 'T' and len(bty[1]) == len(carried) + 1 and bty[1][-1] == 'B'): self.fail(f'filter predicate of type {bty!r}', s)
        stys = list(bty[1][:-1])
        for nm, t0 in zip(carried, stys):
            if tmatch(env[nm].ty, t0) is None: self.fail(f'the predicate changes the type of {nm}', s)
        keep = self.fresh('v_keep')
        pat = '(' + ', '.join([inner[nm] for nm in carried] + [keep]) + ')'
        outs = [self.fresh('o_' + nm) for nm in carried]
        b_ = self.fresh('b')
        step = (f"let '({', '.join(outs + [b_])}) := {tr.text(body)} in\n  ({', '.join(outs)}, if {b_} then {keep} ++ [{x}] else {keep})")
        init = '(' + ', '.join([tr.text(env[nm]) for nm in carried] + ['[]']) + ')'
        sty = coqty(('T', tuple(stys) + (('L', et),)))
        res = self.fresh('v_' + Y)
        e2 = dict(env)
        finals = []
        for nm, t0 in zip(carried, stys):
            fn = self.fresh('v_' + nm); e2[nm] = Val(t0, fn); finals.append(fn)
        e2[Y] = Val(('IT', et), res)
        r = k(e2)
        return self.retext(r, f"let '({', '.join(finals + [res])}) := fold_left (fun '({pat} : {sty}) ({x} : {coqty(et)}) =>\n  {step}) {lv.tx} {init} in\n  {tr.text(r)}")

    def with_field(self, recv, attr, v, s):
        """the record value recv with attribute attr replaced by v"""
        _, con, fields = RECORDS[recv.ty]
        if attr not in [f[0] for f in fields]: self.fail(f'{RECORDS[recv.ty][0]} has no modelled attribute .{attr}', s)
        parts = [self.as_type(v, fty, s) if fa == attr else f'({proj} {recv.tx})' for fa, fty, proj in fields]
        return Val(recv.ty, f'({con} {" ".join(parts)})')

    def check_corner_ownership(self, s):
        """`box.bl.x = v` updates a Point in place.  The record model is only right when that Point is referenced from nowhere
        else (not from the other corner, not from an argument): the corners of a box received as a value are its own by the
        representation invariant, and every corner ASSIGNED in this function must be a fresh object -- `<expr>.clone()` or `Point(..)`."""
        for x in ast.walk(self.fd):
            if isinstance(x, (ast.Assign, ast.AugAssign, ast.AnnAssign)):
                tg = x.targets if isinstance(x, ast.Assign) else [x.target]
                for t in tg:
                    for y in ast.walk(t):
                        if isinstance(y, ast.Attribute) and y.attr in UNSET_BOX and y is t:
                            val = x.value
                            fresh = isinstance(x, ast.Assign) and isinstance(val, ast.Call) and not val.keywords and (
                                (isinstance(val.func, ast.Attribute) and val.func.attr == 'clone' and not val.args) or
                                (isinstance(val.func, ast.Name) and val.func.id == 'Point'))
                            if not fresh: self.fail('in-place update of a corner that may be shared with another object', s)

    def as_optbox(self, v, node=None):
        """a BoundingBox value as `option (bbox T)`"""
        if v.ty == ('O', 'BB'): return v
        if v.ty == 'BB': return Val(('O', 'BB'), f'(Some {v.tx})')
        if v.ty == 'UBB':
            if all(f is None for f in v.const.values()): return Val(('O', 'BB'), 'None')
            self.fail('BoundingBox with exactly one corner set has no representation', node)
        self.fail(f'{v.ty!r} where a BoundingBox is expected', node)

    def stmt_call(self, c, env, k, s):
        tr = self.tr
        f = c.func
        if isinstance(f, ast.Name) and f.id == 'print': return k(env)
        if self.key in CLIP_FUNS and isinstance(f, ast.Attribute) and isinstance(f.value, ast.Name) and f.value.id == 'logging' and 'logging' not in env \
                and f.attr in ('debug', 'info') and not c.keywords \
                and any(isinstance(x, ast.Import) and any(a.name == 'logging' and a.asname is None for a in x.names) for x in module(self.path)[1].body):
            # round 6: logging.debug(..) of values that cannot fail to print: names, constants, "%s" % <name>, <name>.asSegments()
            def harmless(x):
                if isinstance(x, (ast.Name, ast.Constant)): return True
                if isinstance(x, ast.BinOp) and isinstance(x.op, ast.Mod): return harmless(x.left) and harmless(x.right)
                if isinstance(x, ast.Call) and isinstance(x.func, ast.Attribute) and x.func.attr == 'asSegments' and isinstance(x.func.value, ast.Name) and not x.args and not x.keywords: return True
                return False
            if all(harmless(a) for a in c.args): return k(env)
            self.fail('logging of an expression that might fail', s)
        if isinstance(f, ast.Attribute) and f.attr == 'append' and isinstance(f.value, ast.Attribute) and isinstance(f.value.value, ast.Name) \
                and f.value.value.id in env and env[f.value.value.id].ty in RECORDS and len(c.args) == 1 and not c.keywords:
            # obj.field.append(x), obj a record: the field is a list owned by the record (nothing else refers to it: the records
            # are built by their own __init__ from fresh lists, see construct_record)
            nm, fa = f.value.value.id, f.value.attr
            recv = env[nm]
            cur = self.attribute(f.value, env)
            if not (isinstance(cur.ty, tuple) and cur.ty[0] == 'L' and cur.ty[1] != '?'): self.fail(f'.append on attribute .{fa} of type {cur.ty!r}', s)
            a = self.expr(c.args[0], env)
            nl = Val(cur.ty, f'({cur.tx} ++ [{self.as_type(a, cur.ty[1], s)}])')
            return self.bind(nm, self.with_field(recv, fa, nl, s), env, k)
        if isinstance(f, ast.Name) and f.id not in env and f.id not in self.localfuns and self.modfun_path(f.id) \
                and ('mod:' + self.modfun_path(f.id), f.id) in MUTATED_PARAM:
            return self.stmt_call_updating(c, env, k, s)
        if isinstance(f, ast.Attribute) and isinstance(f.value, ast.Name) and f.value.id in env and env[f.value.id].ty == 'K' \
                and isinstance(env[f.value.id].const, tuple) and env[f.value.id].const[0] == 'class' and (env[f.value.id].const[1], f.attr) in MUTATED_PARAM:
            return self.stmt_call_updating_cm(env[f.value.id].const[1], c, env, k, s)      # round 6
        if isinstance(f, ast.Attribute) and isinstance(f.value, ast.Name) and f.value.id in env and self.is_ref(env[f.value.id]):
            # r.append(x), r a reference to one of the local deques: the deque it refers to is updated
            if f.attr != 'append' or len(c.args) != 1 or c.keywords: self.fail(f'.{f.attr} through a reference to a deque', s)
            x = self.expr(c.args[0], env)
            def upd(cur):
                ty = cur.ty if cur.ty[1] != '?' else ('DQ', tr.rtype(x))
                return Val(ty, f'({cur.tx} ++ [{self.as_type(x, ty[1], s)}])')
            return self.update_through(env[f.value.id], upd, env, k, s)
        if isinstance(f, ast.Attribute) and isinstance(f.value, ast.Name) and f.value.id in env and env[f.value.id].ty == 'PC':
            # round 6: pc.AddPath(path, pyclipper.PT_CLIP | pyclipper.PT_SUBJECT, True)
            nm = f.value.id
            pc = env[nm]
            args = [self.expr(a, env) for a in c.args]
            if f.attr != 'AddPath' or c.keywords or len(args) != 3 or not (args[1].ty == 'K' and args[1].const in (('pyclipper', 'PT_CLIP'), ('pyclipper', 'PT_SUBJECT'))) \
                    or not (args[2].ty == 'K' and args[2].const is True) or tr.rtype(args[0]) != ('L', ('T', ('S', 'S'))) or args[0].ty == 'FL':
                self.fail('pc.AddPath(<list of coordinate pairs>, pyclipper.PT_CLIP | pyclipper.PT_SUBJECT, True) is the only form modelled', s)
            self.check_pc_variable(nm, s)
            subj, clp = pc.items
            if args[1].const[1] == 'PT_SUBJECT': subj = Val('FL', items=subj.items + [args[0]])
            else: clp = Val('FL', items=clp.items + [args[0]])
            e2 = dict(env); e2[nm] = Val('PC', items=[subj, clp])
            return k(e2)
        if isinstance(f, ast.Attribute) and isinstance(f.value, ast.Name) and f.value.id in env:
            nm = f.value.id
            recv = env[nm]
            args = [self.expr(a, env) for a in c.args]
            kwargs = {kw.arg: self.expr(kw.value, env) for kw in c.keywords}
            lty = recv.ty
            if f.attr == 'pop' and not args and not kwargs and isinstance(lty, tuple) and lty[0] == 'L' and recv.tx is not None and 'exc' in self.effects and self.key in CLIP_FUNS:
                # round 6: l.pop() as a statement (the popped item is dropped): IndexError on an empty list
                self.push_effect({'effects': {'exc'}, 'what': 'list.pop() (IndexError)', 'kind': 'poplast', 'text': recv.tx, 'pat': None}, s)
                return self.bind(nm, Val(lty, f'(removelast {recv.tx})'), env, k)
            if nm in self.closure_params and (lty == 'FL' or (isinstance(lty, tuple) and lty[0] in ('L', 'DQ'))):
                # the parameter of an expanded local function holds a copy of the argument's VALUE: updating it in place would not
                # reach the caller's object (only references to the local deques do)
                self.fail(f'in-place update of the list {nm.split("__")[-1]} received as an argument by a local function', s)
            if isinstance(lty, tuple) and lty[0] == 'DQ' and f.attr == 'append' and len(args) == 1 and not kwargs:
                if lty[1] == '?': lty = ('DQ', tr.rtype(args[0]))
                return self.bind(nm, Val(lty, f'({recv.tx} ++ [{self.as_type(args[0], lty[1], s)}])'), env, k)
            if lty == 'FL' or (isinstance(lty, tuple) and lty[0] == 'L'):
                if f.attr == 'append':
                    if lty == 'FL':
                        return self.bind(nm, Val('FL', items=recv.items + [args[0]]), env, k)
                    if lty[1] == '?': lty = ('L', tr.rtype(args[0]))      # first append to a list whose element type is not known yet
                    if lty[1] == 'SEG' and (args[0].ty in SEGN or args[0].ty == 'EDGE'): return self.bind(nm, Val(lty, f'({recv.tx} ++ [{self.as_type(args[0], "SEG", s)}])'), env, k)      # round 6
                    return self.bind(nm, Val(lty, f'({recv.tx} ++ [{tr.text(args[0]) if lty[1] != "S" else tr.S(args[0])}])'), env, k)
                if f.attr == 'extend':
                    a = args[0]
                    if isinstance(a.ty, tuple) and a.ty[0] == 'IT':
                        # round 4: a lazy iterator, consumed here, once, where the call that returns it stands
                        if not isinstance(c.args[0], ast.Call): self.fail('an iterator that is not consumed where it is produced', s)
                        a = Val(('L', a.ty[1]), a.tx)
                    if lty == 'FL' and a.ty == 'FL': return self.bind(nm, Val('FL', items=recv.items + a.items), env, k)
                    if lty == 'FL': recv = Val(a.ty, tr.text(Val('FL', items=recv.items)) if recv.items else '[]')
                    nty = recv.ty
                    if isinstance(nty, tuple) and nty[0] == 'L' and nty[1] == '?' and tmatch(nty, tr.rtype(a)) is not None: nty = tmatch(nty, tr.rtype(a))      # round 5: a list whose element type is not known yet
                    return self.bind(nm, Val(nty, f'({recv.tx} ++ {tr.text(a)})'), env, k)
                if f.attr == 'sort':
                    if args or kwargs: self.fail('.sort(..) with arguments', s)      # (round 5: was silently ignored)
                    if lty == 'FL': recv = Val(tr.rtype(recv), tr.text(recv))
                    if recv.ty != ('L', 'S'): self.fail(f'.sort() of a {recv.ty!r} (only a list of floats)', s)
                    return self.bind(nm, Val(recv.ty, f'(sort_ O {recv.tx})'), env, k)
                if f.attr == 'pop' and lty != 'FL' and len(args) == 1 and not kwargs and args[0].ty == 'I' and args[0].const == 0:
                    # l.pop(0) as a statement (the popped item is dropped): only where l is known to be h :: t
                    if not (isinstance(recv.const, tuple) and recv.const[0] == 'cons'): self.fail('pop(0) from a list not known to be non-empty', s)
                    e2 = dict(env); e2[nm] = Val(lty, recv.const[2])
                    return k(e2)
            if ('BoundingBox', f.attr) in OPT_SELF and (recv.ty in ('BB', 'UBB') or recv.ty == ('O', 'BB')) and len(args) == 1 and not kwargs \
                    and (args[0].ty == 'SEG' or args[0].ty in SEGN) and 'exc' in self.effects:
                # round 4: box.extend(seg), seg a segment: neither a Point nor a BoundingBox, so the method's last branch runs,
                # `self.extend(other.bounds())` (checked against the source); other.bounds() with unset corners is None handed to extend
                path, fd, defcls = find_def('BoundingBox', f.attr)
                last = fd.body[-1]
                tests = []
                while isinstance(last, ast.If) and len(last.orelse) == 1:
                    tests.append(last); last = last.orelse[0]
                want = ast.dump(ast.parse(f'{fd.args.args[0].arg}.{f.attr}({fd.args.args[1].arg}.bounds())').body[0])
                if ast.dump(last) != want or not tests or not all(isinstance(x.test, ast.Call) and isinstance(x.test.func, ast.Name) and x.test.func.id == 'isinstance'
                                                                  and len(x.test.args) == 2 and isinstance(x.test.args[1], ast.Name) and x.test.args[1].id in ('Point', 'BoundingBox') for x in tests):
                    self.fail(f'BoundingBox.{f.attr} of a segment: the method is not the chain of isinstance tests ending in {f.attr}(other.bounds())', s)
                a0 = args[0]
                if a0.ty == 'SEG': ob = self.seg_dispatch(a0, lambda c_, sv: self.callfun(c_, 'bounds', [sv], s), s)
                else: ob = self.callfun(CLASS_OF[a0.ty], 'bounds', [a0], s)
                box = self.unbox(ob, s)
                nv = self.callfun('BoundingBox', f.attr, [self.as_optbox(recv, s), box], s, (('ty', 'BB'),))
                return self.bind(nm, nv, env, k)
            if recv.ty == ('O', 'BB') and ('BoundingBox', f.attr) in MUTATORS and ('BoundingBox', f.attr) not in OPT_SELF and 'exc' in self.effects:
                # round 4: a mutator that reads the corners, on a box whose corners may still be None
                recv = self.unbox(recv, s)
            if ('BoundingBox', f.attr) in OPT_SELF and (recv.ty in ('BB', 'UBB') or recv.ty == ('O', 'BB')):
                cls = 'BoundingBox'
                path, fd, defcls = find_def(cls, f.attr)
                vals = self.bindargs(fd, args, kwargs, s, skip_self=True)
                vals, consts = self.coerce_args(cls, f.attr, vals, s)
                nv = self.callfun(cls, f.attr, [self.as_optbox(recv, s)] + vals, s, consts)
                return self.bind(nm, nv, env, k)
            if isinstance(recv.ty, str) and recv.ty in CLASS_OF and (CLASS_OF[recv.ty], f.attr) in MUTATORS:
                cls = CLASS_OF[recv.ty]
                path, fd, defcls = find_def(cls, f.attr)
                vals = self.bindargs(fd, args, kwargs, s, skip_self=True)
                vals, consts = self.coerce_args(cls, f.attr, vals, s)
                nv = self.callfun(cls, f.attr, [recv] + vals, s, consts)
                return self.bind(nm, nv, env, k)
        self.fail('statement-level call', s)

    def check_pc_variable(self, nm, s):
        """round 6: the Pyclipper object is a local variable bound once, by `<nm> = pyclipper.Pyclipper()` at the top level of the function, and
        only used as the receiver of AddPath statements and of Execute, all at the top level of the function body (so the order of the calls is
        the order of the statements)"""
        pm = self.parent_map()
        if not self.bound_once(nm): self.fail(f'the Pyclipper object {nm} is rebound', s)
        for y in ast.walk(self.fd):
            if isinstance(y, ast.Name) and y.id == nm:
                pa = pm.get(y)
                if isinstance(y.ctx, ast.Store):
                    if pm.get(pa) is not self.fd: self.fail(f'{nm} is not bound at the top level of the function', s)
                    continue
                call = pm.get(pa)
                st = pm.get(call)
                ok = isinstance(pa, ast.Attribute) and pa.attr in ('AddPath', 'Execute') and isinstance(call, ast.Call) and call.func is pa \
                    and isinstance(st, (ast.Expr, ast.Assign)) and pm.get(st) is self.fd
                if not ok: self.fail(f'the Pyclipper object {nm} is used other than by top-level AddPath / Execute calls', s)

    def is_ref(self, v):
        return (v.ty == 'K' and isinstance(v.const, tuple) and v.const[0] == 'cellref') or (isinstance(v.ty, tuple) and v.ty[0] == 'RF')

    def update_through(self, r, upd, env, k, s):
        """replace the deque the reference r stands for by upd(<its current value>): the cell itself when r is static, else each of
        the two candidates conditionally"""
        tr = self.tr
        if r.ty == 'K':
            c = r.const[1]
            return self.bind(c, upd(env[c]), env, k)
        cands = r.ty[1]
        cur = [env[c] for c in cands]
        new = [upd(v) for v in cur]
        ty = tmatch(new[0].ty, new[1].ty)
        if ty is None: self.fail(f'the two deques have different types {new[0].ty!r} / {new[1].ty!r}', s)
        v0 = Val(ty, f'(if {r.tx} then {new[0].tx} else {tr.text(cur[0])})')
        v1 = Val(ty, f'(if {r.tx} then {tr.text(cur[1])} else {new[1].tx})')
        return self.bind(cands[0], v0, env, lambda e: self.bind(cands[1], v1, e, k))

    def stmt_call_updating(self, c, env, k, s):
        """statement `g(x, a2, ..)`, g a module function that returns None and updates its first-listed MUTATED_PARAM in place; x a
        variable holding a deque, or a reference to one of the local deques.  g x a2 .. is the new value of it."""
        tr = self.tr
        name = c.func.id
        path = self.modfun_path(name)
        fd = find_modfun(path, name)
        mp = MUTATED_PARAM[('mod:' + path, name)]
        params = [a.arg for a in fd.args.args]
        sig = MODSIG[(path, name)]
        if c.keywords or len(c.args) != len(params) or fd.args.defaults or any(isinstance(a, ast.Starred) for a in c.args): self.fail(f'call of {name}: only plain positional arguments', s)
        i = params.index(mp)
        an = c.args[i]
        if not (isinstance(an, ast.Name) and an.id in env): self.fail(f'{name} updates its argument {mp} in place: it must be a variable', s)
        target = env[an.id]
        if isinstance(target.ty, tuple) and target.ty[0] == 'DQ':
            if an.id not in self.cells and self.cells: self.fail(f'{an.id} may share its deque with a cell', s)
            target_ref = None
        elif self.is_ref(target): target_ref = target
        else: self.fail(f'{name} updates a {target.ty!r} in place', s)
        cur = self.deref(target, env, s) if target_ref is not None else target
        vals = []
        for j, (a, t) in enumerate(zip(c.args, sig)):
            if j == i:
                m = tmatch(cur.ty, t)
                if m is None: self.fail(f'argument type {cur.ty!r} where {t!r} expected in {name}', s)
                vals.append(tr.text(cur)); continue
            v = self.expr(a, env)
            if isinstance(t, tuple) and t[0] == 'FUN':
                if not (v.ty == 'K' and isinstance(v.const, tuple) and v.const[0] == 'lambda'): self.fail(f'{name}: argument {params[j]} must be a lambda', s)
                body, ftx = self.lambda_text(v, list(t[1]), s)
                if tmatch(tr.rtype(body), t[2]) is None: self.fail(f'{name}: the lambda returns {tr.rtype(body)!r}, {t[2]!r} expected', s)
                vals.append(ftx)
            else:
                vals.append(self.as_type(v, t, s))
        cname, rty, file = tr.function('mod:' + path, name)
        m = is_mtype(rty)
        if m is None:
            new = Val(rty, f'({cname} O {" ".join(vals)})')
        else:
            eff, inner = m
            if 'fuel' in eff: self.fail(f'{name} consumes fuel', s)
            r = self.fresh('r')
            self.push_effect({'effects': set(eff), 'what': f'call of {cname}', 'kind': 'call', 'text': f'({cname} O {" ".join(vals)})', 'pat': r}, s)
            new = Val(inner, r)
        new = Val(sig[i] if tmatch(new.ty, sig[i]) is not None else new.ty, new.tx)
        if target_ref is None: return self.bind(an.id, new, env, k)
        return self.update_through(target_ref, lambda cur_: new, env, k, s)

    def stmt_call_updating_cm(self, cls, c, env, k, s):
        """round 6: statement `self.g(.., x, ..)` / `Cls.g(.., x, ..)`, g a classmethod that returns None and updates its MUTATED_PARAM in
        place: the generated g returns the new value of that argument, and x is rebound to it.  x must be a local variable (not a
        parameter) every binding of which is the result of a call (a fresh object) and that is never copied into another variable
        (`y = x`): then no other name can see the update."""
        tr = self.tr
        name = c.func.attr
        path, fd, defcls = find_def(cls, name)
        mp = MUTATED_PARAM[(cls, name)]
        params = [a.arg for a in fd.args.args][1:]
        if c.keywords or len(c.args) != len(params) or fd.args.defaults or any(isinstance(a, ast.Starred) for a in c.args): self.fail(f'call of {name}: only plain positional arguments', s)
        an = c.args[params.index(mp)]
        if not (isinstance(an, ast.Name) and an.id in env): self.fail(f'{name} updates its argument {mp} in place: it must be a variable', s)
        X = an.id
        pm = self.parent_map()
        if X in [a.arg for a in self.fd.args.args]: self.fail(f'{name} updates {X}, a parameter (its owner would see the update)', s)
        for y in ast.walk(self.fd):
            if isinstance(y, ast.Name) and y.id == X:
                pa = pm.get(y)
                if isinstance(y.ctx, ast.Store) and not (isinstance(pa, ast.Assign) and pa.targets == [y] and isinstance(pa.value, ast.Call)):
                    self.fail(f'{name} updates {X}, which is not only ever bound to the result of a call', s)
                if isinstance(y.ctx, ast.Load) and isinstance(pa, (ast.Assign, ast.List, ast.Tuple, ast.Dict, ast.Return)) and not (isinstance(pa, ast.Return) and False):
                    if not isinstance(pa, ast.Return): self.fail(f'{name} updates {X}, which is copied into another variable or structure', s)
        vals = [self.expr(a, env) for a in c.args]
        vals, consts = self.coerce_args(cls, name, vals, s)
        nv = self.callfun(cls, name, vals, s, consts)
        return self.bind(X, nv, env, k)

    def narrow(self, test, env):
        """Optional-typed name tested for None / truthiness -> (name, value, mode)"""
        neg = False
        t = test
        if isinstance(t, ast.UnaryOp) and isinstance(t.op, ast.Not): neg = True; t = t.operand
        if isinstance(t, ast.Name) and t.id in env and isinstance(env[t.id].ty, tuple) and env[t.id].ty[0] == 'O':
            return (t.id, env[t.id], 'falsy' if neg else 'truthy')
        if isinstance(t, ast.Compare) and len(t.ops) == 1 and isinstance(t.left, ast.Name) and t.left.id in env \
                and isinstance(env[t.left.id].ty, tuple) and env[t.left.id].ty[0] == 'O' \
                and isinstance(t.comparators[0], ast.Constant) and t.comparators[0].value is None:
            isnone = isinstance(t.ops[0], (ast.Is, ast.Eq))
            if neg: isnone = not isnone
            return (t.left.id, env[t.left.id], 'isnone' if isnone else 'notnone')
        return None

    def list_test(self, t, env):
        """`len(X) == 0`, `len(X) > 0`, `len(X) != 0`, `X`, `not X` for a dynamic list variable X -> (X, True iff the test says X is empty)"""
        neg = False
        if isinstance(t, ast.UnaryOp) and isinstance(t.op, ast.Not): neg = True; t = t.operand
        def dyn(x): return isinstance(x, ast.Name) and x.id in env and isinstance(env[x.id].ty, tuple) and env[x.id].ty[0] == 'L' and env[x.id].tx is not None
        if dyn(t): return (t.id, neg)
        if isinstance(t, ast.Compare) and len(t.ops) == 1 and isinstance(t.left, ast.Call) and isinstance(t.left.func, ast.Name) and t.left.func.id == 'len' \
                and 'len' not in env and 'len' not in self.localfuns and not t.left.keywords and len(t.left.args) == 1 and dyn(t.left.args[0]) \
                and isinstance(t.comparators[0], ast.Constant) and type(t.comparators[0].value) is int and t.comparators[0].value == 0:
            op = t.ops[0]
            if isinstance(op, ast.Eq): return (t.left.args[0].id, not neg)
            if isinstance(op, (ast.Gt, ast.NotEq)): return (t.left.args[0].id, neg)
        return None

    def cons_view(self, X, env):
        """environment in which the dynamic list X is known to be h :: t"""
        h, t = self.fresh(f'v_{X}_hd'), self.fresh(f'v_{X}_tl')
        e2 = dict(env); e2[X] = Val(env[X].ty, f'({h} :: {t})', const=('cons', h, t))
        return e2, h, t

    def dict_append_idiom(self, s, rest, env):
        """`if K not in D: D[K] = []` immediately followed by `D[K].append(X)`, D a dict variable, K and X names -> (D, K node, X node)"""
        t = s.test
        if not (isinstance(t, ast.Compare) and len(t.ops) == 1 and isinstance(t.ops[0], ast.NotIn) and isinstance(t.left, ast.Name)
                and isinstance(t.comparators[0], ast.Name) and not s.orelse and len(s.body) == 1 and rest): return None
        D, K = t.comparators[0].id, t.left.id
        if D not in env or not (isinstance(env[D].ty, tuple) and env[D].ty[0] == 'DICT') or K not in env or D == K: return None
        def is_item(x, ctx): return isinstance(x, ast.Subscript) and isinstance(x.ctx, ctx) and isinstance(x.value, ast.Name) and x.value.id == D \
            and isinstance(x.slice, ast.Name) and x.slice.id == K
        a = s.body[0]
        if not (isinstance(a, ast.Assign) and len(a.targets) == 1 and is_item(a.targets[0], ast.Store) and isinstance(a.value, ast.List) and not a.value.elts): return None
        c = rest[0]
        if not (isinstance(c, ast.Expr) and isinstance(c.value, ast.Call) and isinstance(c.value.func, ast.Attribute) and c.value.func.attr == 'append'
                and is_item(c.value.func.value, ast.Load) and len(c.value.args) == 1 and not c.value.keywords and isinstance(c.value.args[0], ast.Name)
                and c.value.args[0].id not in (D, K)): return None
        return D, t.left, c.value.args[0]

    def dict_alias_idiom(self, s, rest, env):
        """`if K in D:` whose body starts with `X = D[K]` (see 'DICT') -> (D, K, X)"""
        t = s.test
        if not (isinstance(t, ast.Compare) and len(t.ops) == 1 and isinstance(t.ops[0], ast.In) and isinstance(t.left, ast.Name)
                and isinstance(t.comparators[0], ast.Name) and s.body): return None
        D, K = t.comparators[0].id, t.left.id
        if D not in env or not (isinstance(env[D].ty, tuple) and env[D].ty[0] == 'DICT') or K not in env or D == K: return None
        a = s.body[0]
        if not (isinstance(a, ast.Assign) and len(a.targets) == 1 and isinstance(a.targets[0], ast.Name) and isinstance(a.value, ast.Subscript)
                and isinstance(a.value.value, ast.Name) and a.value.value.id == D and isinstance(a.value.slice, ast.Name) and a.value.slice.id == K): return None
        X = a.targets[0].id
        if X in (D, K) or X in env: self.fail(f'{X} = {D}[{K}]: the alias must be a new variable', s)
        def mentions(stmts, nm): return any(isinstance(y, ast.Name) and y.id == nm for st in stmts for y in ast.walk(st))
        if mentions(s.body[1:], D): self.fail(f'{D} is used while {X} aliases one of its values', s)
        if mentions(s.orelse, X) or mentions(rest, X) or any(X in l for l in self.live_stack): self.fail(f'{X} (an alias of a value of {D}) is used after the `if`', s)
        # the alias may only be consumed / updated in place, never copied or handed to something else
        parent = {}
        for st in s.body[1:]:
            for x in ast.walk(st):
                for c in ast.iter_child_nodes(x): parent[c] = x
        for st in s.body[1:]:
            for x in ast.walk(st):
                if isinstance(x, ast.Name) and x.id == X:
                    p = parent.get(x)
                    ok = (isinstance(p, ast.Call) and isinstance(p.func, ast.Name) and p.func.id == 'len' and p.args == [x]) \
                        or (isinstance(p, ast.Attribute) and p.attr in ('pop', 'append') and isinstance(parent.get(p), ast.Call) and parent[p].func is p) \
                        or (isinstance(p, ast.Subscript) and p.value is x and not isinstance(p.slice, ast.Slice))
                    if not ok: self.fail(f'the alias {X} of a value of {D} is used other than by len / pop / append / indexing', x)
        return D, K, X

    def dict_get_idiom(self, s, env):
        """round 6: `if K in D and <more>:` whose body starts with `X = D[K]`, D a dict variable, K a name, X a new variable not used after the
        `if` -> (D, K, X, [<more>])"""
        t = s.test
        if not (isinstance(t, ast.BoolOp) and isinstance(t.op, ast.And) and len(t.values) >= 2): return None
        c0 = t.values[0]
        if not (isinstance(c0, ast.Compare) and len(c0.ops) == 1 and isinstance(c0.ops[0], ast.In) and isinstance(c0.left, ast.Name) and isinstance(c0.comparators[0], ast.Name) and s.body): return None
        D, K = c0.comparators[0].id, c0.left.id
        if D not in env or not (isinstance(env[D].ty, tuple) and env[D].ty[0] == 'DICT') or K not in env or D == K: return None
        a = s.body[0]
        if not (isinstance(a, ast.Assign) and len(a.targets) == 1 and isinstance(a.targets[0], ast.Name) and isinstance(a.value, ast.Subscript) and isinstance(a.value.value, ast.Name)
                and a.value.value.id == D and isinstance(a.value.slice, ast.Name) and a.value.slice.id == K): return None
        X = a.targets[0].id
        if X in (D, K) or X in env: self.fail(f'{X} = {D}[{K}]: the variable must be a new one', s)
        def mentions(stmts, nm): return any(isinstance(y, ast.Name) and y.id == nm for st in stmts for y in ast.walk(st))
        if mentions(s.orelse, X): self.fail(f'{X} is used in the else branch', s)
        if K in self.assigned(s.body + s.orelse, env) or D in self.assigned(s.body + s.orelse, env): self.fail(f'{K} / {D} is updated under the test', s)
        return D, K, X, list(t.values[1:])

    def dict_get_if(self, dg, s, rest, env, cont, ret):
        """round 6: if K in D and C: X = D[K]; A  else: B   -- D[K] is read only where K is in D:
            let <vars> := match dict_get D K with Some x => if C then A else B | None => B end in <the rest>"""
        tr = self.tr
        D, K, X, more = dg
        d, kv = env[D], env[K]
        kt = tmatch(d.ty[1], tr.rtype(kv))
        if kt is None or kt == '?' or d.ty[2] == '?' or d.tx is None: self.fail(f'lookup of a {tr.rtype(kv)!r} in a {d.ty!r}', s)
        if self.always_returns(s.body) or self.always_returns(s.orelse) or self.has_exit(s.body) or self.has_exit(s.orelse): self.fail('return / break under a dict lookup test', s)
        if any(X in l for l in self.live_stack) or self.reads_free(rest, X): self.fail(f'{X} is used after the `if`', s)
        live = self.live_after(rest)
        names = [v for v in self.assigned(s.body[1:] + s.orelse, env) if v in live and v != X]
        if not names: return self.block(rest, env, cont, ret)
        x0 = self.fresh('v_' + X)
        eS = dict(env); eS[X] = Val(d.ty[2], x0)
        c = self.conj(self.purely(lambda: [self.truth(self.expr(m, env), s) for m in more]), 'andb')
        def branch(stmts, e):
            return self.with_live(names, lambda: self.in_ctx('pure', lambda: self.block(stmts, e, lambda e2: Val('TUP', items=[self.need(e2, v, s) for v in names]), lambda v, e2: self.fail('return in joined branch', s))))
        a, b = branch(s.body[1:], eS), branch(s.orelse, env)
        x, y, ty = self.unify_wrapped(a, b, names, s)
        tys = list(ty[1]) if isinstance(ty, tuple) and ty[0] == 'T' and len(ty[1]) == len(names) else self.fail(f'joined branches of type {ty!r}', s)
        inner = f'(if {c.tx} then {x} else {y})' if c.ty != 'K' else (x if c.const else y)
        e2 = dict(env)
        pat = None
        for nm, t in zip(names, tys):
            fn = self.fresh('v_' + nm)
            e2[nm] = Val(t, fn)
            pat = fn if pat is None else f'({pat}, {fn})'
        if len(names) > 1: pat = "'" + pat
        r = self.block(rest, e2, cont, ret)
        return self.retext(r, f'let {pat} := (match dict_get {self.keyeq(kt, s)} {d.tx} {tr.text(kv)} with Some {x0} => {inner} | None => {y} end) in\n  {tr.text(r)}')

    def len_eq_test(self, t, env):
        """`len(X) == k` for a dynamic list variable X and a literal k >= 1 -> (X, k)"""
        if isinstance(t, ast.Compare) and len(t.ops) == 1 and isinstance(t.ops[0], ast.Eq) and isinstance(t.left, ast.Call) \
                and isinstance(t.left.func, ast.Name) and t.left.func.id == 'len' and 'len' not in env and 'len' not in self.localfuns \
                and not t.left.keywords and len(t.left.args) == 1 and isinstance(t.left.args[0], ast.Name) \
                and isinstance(t.comparators[0], ast.Constant) and type(t.comparators[0].value) is int and t.comparators[0].value >= 1:
            X = t.left.args[0].id
            if X in env and isinstance(env[X].ty, tuple) and env[X].ty[0] == 'L' and env[X].ty[1] != '?' and env[X].tx is not None:
                return (X, t.comparators[0].value)
        return None

    def items_view(self, X, k, env):
        """environment in which the dynamic list X is known to be [x1; ..; xk] (a translation-time list of its items), and the pattern"""
        names = [self.fresh(f'v_{X}_it') for _ in range(k)]
        e2 = dict(env); e2[X] = Val('FL', items=[Val(env[X].ty[1], nm) for nm in names])
        return e2, '[' + '; '.join(names) + ']'

    def seg_len_var(self, test, env):
        """a variable X holding a segment of unknown class ('SEG') whose len(X) occurs in the test, or None"""
        if 'len' in env or 'len' in self.localfuns: return None
        for x in ast.walk(test):
            if isinstance(x, ast.Call) and isinstance(x.func, ast.Name) and x.func.id == 'len' and not x.keywords and len(x.args) == 1 \
                    and isinstance(x.args[0], ast.Name) and x.args[0].id in env and env[x.args[0].id].ty == 'SEG':
                return x.args[0].id
        return None

    def split_on_class(self, X, s, rest, env, cont, ret):
        """an `if` that asks for len(X), X a segment of unknown class: the statement (and what follows it) is translated once for each
        of the three classes, under `match X with SLine s => .. | SQuad s => .. | SCubic s => .. end`; in each arm X has a known
        class, so len(X) is a literal and X[k] a field (or, out of range, Untranslatable only if that arm can reach it)"""
        if X in self.assigned(s.body + s.orelse, env): self.fail(f'{X} is rebound under a test of its len()', s)
        arms = []
        for con, t in SEGSUM:
            nm = self.fresh('s')
            e2 = dict(env); e2[X] = Val(t, nm)
            arms.append((con, nm, self.stmt_if(s, rest, e2, cont, ret)))
        vals = [a[2] for a in arms]
        if all(v.ty == 'K' and v.const is None for v in vals): return vals[0]
        x0, x1, t01 = self.unify(vals[0], vals[1], s)
        x0b, x2, t = self.unify(Val(t01, x0), vals[2], s)
        if t != t01: self.fail(f'the three classes of segment give different types: {t01!r} / {t!r}', s)
        texts = [x0b, x1, x2]
        return Val(t, f'(match {env[X].tx} with' + ''.join(f'\n  | {con} {nm} =>\n  {tx}' for (con, nm, _), tx in zip(arms, texts)) + '\n  end)')

    def stmt_if(self, s, rest, env, cont, ret):
        tr = self.tr
        t0 = s.test
        if isinstance(t0, ast.BoolOp) and isinstance(t0.op, ast.And) and len(t0.values) >= 2 and isinstance(t0.values[0], ast.Name) and t0.values[0].id in env:
            x0 = env[t0.values[0].id]
            if isinstance(x0.ty, tuple) and x0.ty[0] == 'O' and isinstance(x0.ty[1], tuple) and x0.ty[1][0] == 'T' and x0.tx is not None:
                # round 5: `if X and <rest>: A else: B`, X an Optional tuple (False / None, or a tuple: always truthy): Python evaluates <rest>
                # only when X is a tuple, so this is `if X: (if <rest>: A else: B) else: B`, and the inner statement sees the tuple
                rt = t0.values[1] if len(t0.values) == 2 else ast.BoolOp(op=ast.And(), values=list(t0.values[1:]))
                inner = ast.copy_location(ast.If(test=rt, body=s.body, orelse=s.orelse), s)
                outer = ast.copy_location(ast.If(test=t0.values[0], body=[inner], orelse=s.orelse), s)
                ast.fix_missing_locations(outer)
                return self.stmt_if(outer, rest, env, cont, ret)
        sx = self.seg_len_var(s.test, env)
        if sx is not None: return self.split_on_class(sx, s, rest, env, cont, ret)
        if self.key in CLIP_FUNS:
            dg = self.dict_get_idiom(s, env)
            if dg is not None: return self.dict_get_if(dg, s, rest, env, cont, ret)      # round 6
        da = self.dict_alias_idiom(s, rest, env)
        if da is not None:
            D, K, X = da
            d, kv = env[D], env[K]
            kt = tmatch(d.ty[1], tr.rtype(kv))
            if kt is None or kt == '?' or d.ty[2] == '?': self.fail(f'lookup of a {tr.rtype(kv)!r} in a {d.ty!r}', s)
            x0 = self.fresh('v_' + X)
            keyvar = f'{D}__key'
            if keyvar in env or any(isinstance(y, ast.Name) and y.id == keyvar for y in ast.walk(self.fd)): self.fail(f'the name {keyvar} is taken', s)
            eS = dict(env); eS[X] = Val(d.ty[2], x0); eS[keyvar] = kv
            back = ast.Assign(targets=[ast.Subscript(value=ast.Name(id=D, ctx=ast.Load()), slice=ast.Name(id=keyvar, ctx=ast.Load()), ctx=ast.Store())],
                              value=ast.Name(id=X, ctx=ast.Load()))
            ast.copy_location(back, s.body[-1]); ast.fix_missing_locations(back)
            a = self.block(s.body[1:] + [back] + rest, eS, cont, ret)
            b = self.block(s.orelse + rest, env, cont, ret)
            if a.ty == 'K' and a.const is None and b.ty == 'K' and b.const is None: return a
            x, y, ty = self.unify(a, b, s)
            return Val(ty, f'(match dict_get {self.keyeq(kt, s)} {d.tx} {tr.text(kv)} with\n  | Some {x0} =>\n  {x}\n  | None =>\n  {y}\n  end)')
        lk = self.len_eq_test(s.test, env)
        if lk is not None:
            # `if len(X) == k:` on a dynamic list: a match on the shape of X; the true side sees X as the list of its k items
            X, kk = lk
            eT, pat = self.items_view(X, kk, env)
            rb, ro = self.always_returns(s.body), self.always_returns(s.orelse)
            a = self.block(s.body + ([] if rb else rest), eT, cont, ret)
            b = self.block(s.orelse + ([] if ro else rest), env, cont, ret)
            if a.ty == 'K' and a.const is None and b.ty == 'K' and b.const is None: return a
            x, y, ty = self.unify(a, b, s)
            return Val(ty, f'(match {env[X].tx} with\n  | {pat} =>\n  {x}\n  | _ =>\n  {y}\n  end)')
        lt = self.list_test(s.test, env) if self.effects else None
        if lt is not None:
            # a test of emptiness of a list is a match: the non-empty side sees it as h :: t (so l[0], l.pop(0) cannot fail there)
            X, empty = lt
            nil_b, cons_b = (s.body, s.orelse) if empty else (s.orelse, s.body)
            rn, rc = self.always_returns(nil_b), self.always_returns(cons_b)
            if not (rn or rc) and rest: self.fail('emptiness test neither side of which leaves', s)
            eN = dict(env); eN[X] = Val(env[X].ty, '[]')
            eC, h, t = self.cons_view(X, env)
            a = self.block(nil_b + ([] if rn else rest), eN, cont, ret)
            b = self.block(cons_b + ([] if rc else rest), eC, cont, ret)
            if a.ty == 'K' and a.const is None and b.ty == 'K' and b.const is None: return a
            x, y, ty = self.unify(a, b, s)
            return Val(ty, f'(match {env[X].tx} with\n  | [] =>\n  {x}\n  | {h} :: {t} =>\n  {y}\n  end)')
        nar = self.narrow(s.test, env)
        if nar is not None:
            name, ov, mode = nar
            inner = ov.ty[1]
            z = self.fresh('z')
            envN = dict(env); envN[name] = Val('K', const=None)
            envS = dict(env); envS[name] = Val(inner, z)
            cN = Val('K', const=mode in ('falsy', 'isnone'))
            if mode == 'isnone': cS = Val('K', const=False)
            elif mode == 'notnone': cS = Val('K', const=True)
            elif inner == 'S':
                cS = Val('B', f'(eqb O {z} (ofZ O 0))') if mode == 'falsy' else Val('B', f'(neqb O {z} (ofZ O 0))')
            elif isinstance(inner, tuple) and inner[0] == 'L' and mode in ('truthy', 'falsy') and self.key in CHECKED:
                # round 6: an Optional list: None and [] are both falsy
                cS = Val('B', f'(isnil {z})') if mode == 'falsy' else Val('B', f'(negb (isnil {z}))')
            else:
                if mode in ('truthy', 'falsy') and isinstance(inner, str) and inner in CLASS_OF: self.always_truthy(inner, s)
                cS = Val('K', const=(mode == 'truthy'))
            rN = self.if_with(cN, s, rest, envN, cont, ret)
            rS = self.if_with(cS, s, rest, envS, cont, ret)
            x, y, ty = self.unify(rN, rS, s)
            return Val(ty, f'(match {ov.tx} with None => {x} | Some {z} => {y} end)')
        c = self.truth(self.expr(s.test, env), s)
        return self.if_with(c, s, rest, env, cont, ret)

    def if_with(self, c, s, rest, env, cont, ret):
        tr = self.tr
        if c.ty == 'K':
            return self.block((s.body if c.const else s.orelse) + rest, env, cont, ret)
        rb, ro = self.always_returns(s.body), self.always_returns(s.orelse)
        if self.join_early and not (rb or ro) and (self.has_return(s.body) or self.has_return(s.orelse)) and rest and self.effects \
                and self.ctx_stack[-1] == 'fun' and self.pure_depth == 0 and not any(l is not None for l in self.loop_stack):
            return self.join_early_outcomes(c, s, rest, env, cont, ret)      # round 6
        if rb or ro or self.has_exit(s.body) or self.has_exit(s.orelse):
            # at least one side leaves the function: no join needed (the rest is duplicated only on mixed paths)
            a = self.block(s.body + ([] if rb else rest), env, cont, ret)
            b = self.block(s.orelse + ([] if ro else rest), env, cont, ret)
            if a.ty == 'K' and a.const is None and b.ty == 'K' and b.const is None: return a
            return self.join(c, a, b, s)
        live = self.live_after(rest)
        names = [v for v in self.assigned(s.body + s.orelse, env) if v in live]
        if not names: return self.block(rest, env, cont, ret)
        def branch(stmts):
            return self.with_live(names, lambda: self.block(stmts, env, lambda e: Val('TUP', items=[self.need(e, v, s) for v in names]), lambda v, e: self.fail('return in joined branch', s)))
        saved = (self.counter, len(self.pending))
        try:
            a, b = branch(s.body), branch(s.orelse)
        except EffectInJoin:
            # a branch consumes fuel or may raise: it cannot be a value joined by `if`; each branch is continued by the rest instead
            if not self.effects: raise
            self.counter = saved[0]; del self.pending[saved[1]:]
            if self.join_effects and self.ctx_stack[-1] in ('fun', 'foldx') and self.pure_depth == 0:
                return self.join_outcomes(c, s, rest, env, cont, ret, names)
            a = self.block(s.body + rest, env, cont, ret)
            b = self.block(s.orelse + rest, env, cont, ret)
            if a.ty == 'K' and a.const is None and b.ty == 'K' and b.const is None: return a
            return self.join(c, a, b, s)
        # a, b are TUP possibly wrapped in lets: normalise through text
        x, y, ty = self.unify_wrapped(a, b, names, s)
        e2 = dict(env)
        if len(names) == 1:
            fn = self.fresh('v_' + names[0])
            e2[names[0]] = Val(ty[1][0], fn)
            pat = fn
        else:
            pat = None
            for nm, t in zip(names, ty[1]):
                fn = self.fresh('v_' + nm)
                e2[nm] = Val(t, fn)
                pat = fn if pat is None else f'({pat}, {fn})'
            pat = "'" + pat
        r = self.block(rest, e2, cont, ret)
        return self.retext(r, f'let {pat} := (if {c.tx} then {x} else {y}) in\n  {tr.text(r)}')

    def join_outcomes(self, c, s, rest, env, cont, ret, names):
        """round 4 (JOIN_EFFECTS): an `if` whose branches consume fuel / may raise and do not leave the function: each branch ends in
        the values of the variables it assigns, as a result with the function's effects; the rest is translated once, under the match"""
        tr = self.tr
        def branch(stmts):
            def end(e):
                vals = [self.need(e, v, s) for v in names]
                return self.mreturn(vals[0] if len(vals) == 1 else Val('TUP', items=vals))
            return self.with_live(names, lambda: self.block(stmts, env, end, lambda v, e: self.fail('return in joined branch', s)))
        a, b = branch(s.body), branch(s.orelse)
        x, y, ty = self.unify(a, b, s)
        m = is_mtype(ty)
        if m is None or m[0] != set(self.effects): self.fail(f'joined branches of type {ty!r}', s)
        inner = m[1]
        tys = [inner] if len(names) == 1 else (list(inner[1]) if isinstance(inner, tuple) and inner[0] == 'T' and len(inner[1]) == len(names) else None)
        if tys is None: self.fail(f'joined branches of type {ty!r}', s)
        e2 = dict(env)
        pat = None
        for nm, t in zip(names, tys):
            fn = self.fresh('v_' + nm)
            e2[nm] = Val(t, fn)
            pat = fn if pat is None else f'({pat}, {fn})'
        r = self.block(rest, e2, cont, ret)
        if r.ty == 'K' and r.const is None: self.fail('effectful branches on a path that returns None', s)
        if is_mtype(tr.rtype(r)) is None: raise EffectInJoin(f'{self.path}:{s.lineno} ({self.fd.name}): effectful branches where the continuation is not a function result')
        ent = {'effects': set(self.effects), 'what': 'if with effectful branches', 'kind': 'call', 'text': f'(if {c.tx} then\n  {x}\n  else {y})', 'pat': pat}
        return self.retext(r, self.wrap([ent], tr.text(r), self.ctx_stack[-1], s))

    def join_early_outcomes(self, c, s, rest, env, cont, ret):
        """round 6 (JOIN_EARLY): an `if` some of whose paths return and some fall through, followed by more code.  Each branch is a result with
        the function's effects of a sum: `inl v` where it executes `return v`, `inr (<the variables it assigns that are used later>)` where it
        falls through; the rest is translated once:

            match (if c then A else B) with
            | None => None | Some (Raises e_) => Some (Raises e_)
            | Some (Returns (inl r_)) => Some (Returns r_)
            | Some (Returns (inr <vars>)) => <the rest>
            end"""
        tr = self.tr
        if self.ret_type is None: self.fail('an `if` with early returns in a function whose result type is not declared (RECURSIVE / RET_DECL)', s)
        live = self.live_after(rest)
        names = [v for v in self.assigned(s.body + s.orelse, env) if v in live]
        def tagged(tag, thunk):
            saved = self.mreturn_tag
            self.mreturn_tag = tag
            try: return thunk()
            finally: self.mreturn_tag = saved
        def branch(stmts):
            def end(e):
                vals = [self.need(e, v, s) for v in names]
                v = Val('UNIT', 'tt') if not vals else (vals[0] if len(vals) == 1 else Val('TUP', items=vals))
                return tagged('inr', lambda: self.mreturn(v))
            def early(v, e): return tagged('inl', lambda: ret(v, e))
            return self.with_live(names, lambda: tagged(None, lambda: self.block(stmts, env, end, early)))
        a, b = branch(s.body), branch(s.orelse)
        x, y, ty = self.unify(a, b, s)
        m = is_mtype(ty)
        if m is None or m[0] != set(self.effects) or m[1] != 'EARLY': self.fail(f'joined branches of type {ty!r}', s)
        e2 = dict(env)
        # the types of the variables: as the branches leave them (both branches must agree)
        def types_at_end(stmts):
            out = []
            def end(e):
                out.append([tr.rtype(self.need(e, v, s)) for v in names]); return Val('K', const=None)
            saved = (self.counter, tr.counter, len(self.pending))
            self.trial += 1
            try:
                try: self.with_live(names, lambda: self.block(stmts, env, end, lambda v, e: Val('K', const=None)))
                except Untranslatable: pass
            finally:
                self.trial -= 1
                self.counter, tr.counter = saved[0], saved[1]; del self.pending[saved[2]:]
            return out
        rows = types_at_end(s.body) + types_at_end(s.orelse)
        tys = []
        for i, v in enumerate(names):
            t = None
            for row in rows:
                rt = 'Z' if (row[i] == 'S' and v in env and env[v].ty == 'Z') else row[i]
                t = rt if t is None else tmatch(t, rt)
                if t is None: self.fail(f'the branches leave {v} with different types', s)
            if t is None: self.fail(f'no type for {v} after the branches', s)
            tys.append(t)
        pat = None
        for nm, t in zip(names, tys):
            fn = self.fresh('v_' + nm)
            e2[nm] = Val(t, fn)
            pat = fn if pat is None else f'({pat}, {fn})'
        if pat is None: pat = '_'
        r = self.block(rest, e2, cont, ret)
        if r.ty == 'K' and r.const is None: self.fail('early returns on a path that returns None', s)
        if is_mtype(tr.rtype(r)) is None: raise EffectInJoin(f'{self.path}:{s.lineno} ({self.fd.name}): early returns where the continuation is not a function result')
        ev = ret(Val(self.ret_type, 'r_'), env)
        fx_ = tuple(sorted(self.effects))
        arms = {('exc',): f'  | Raises e_ => {self.raise_text("e_")}\n  | Returns (inl r_) => {tr.text(ev)}\n  | Returns (inr {pat}) =>',
                ('fuel',): f'  | None => None\n  | Some (inl r_) => {tr.text(ev)}\n  | Some (inr {pat}) =>',
                ('exc', 'fuel'): f'  | None => None\n  | Some (Raises e_) => {self.raise_text("e_")}\n  | Some (Returns (inl r_)) => {tr.text(ev)}\n  | Some (Returns (inr {pat})) =>'}[fx_]
        self.occurred |= set(self.effects) & {'exc'} if 'Raises' in x + y else set()
        return self.retext(r, f'match (if {c.tx} then\n  {x}\n  else {y}) with\n{arms}\n  {tr.text(r)}\n  end')

    def need(self, env, v, s):
        if v not in env: self.fail(f'variable {v} not defined on every path', s)
        val = env[v]
        if val.ty == 'UBB': return self.as_optbox(val, s)
        if val.ty == 'FL': return Val(self.tr.rtype(val) if val.items else 'FL', self.tr.text(val) if val.items else None, items=None if val.items else [])
        return val

    def unify_wrapped(self, a, b, names, s):
        tr = self.tr
        if a.ty == 'TUP' and b.ty == 'TUP':
            if len(names) == 1:
                x, y, t = self.unify(a.items[0], b.items[0], s)
                return x, y, ('T', (t,))
            return self.unify(a, b, s)
        ta, tb = tr.rtype(a), tr.rtype(b)
        if tmatch(ta, tb) is None: self.fail(f'joined branches differ: {ta!r} / {tb!r}', s)
        ta = tmatch(ta, tb)
        if len(names) == 1: return tr.text(a), tr.text(b), ('T', (ta,)) if not (isinstance(ta, tuple) and ta[0] == 'T') else ta
        return tr.text(a), tr.text(b), ta

    def pairs_loop(self, s, env):
        """recognise   for i in range(1, len(X)): <body reading i only as X[i] and X[i - 1]>   over a dynamic list X.
        The iterations see exactly the pairs (X[i], X[i-1]), i = 1 .. len(X)-1, i.e. the elements of combine (tl X) X, and no
        index can be out of range.  Returns (X, name for X[i], name for X[i-1], rewritten loop) or None."""
        it = s.iter
        if not (isinstance(it, ast.Call) and isinstance(it.func, ast.Name) and it.func.id == 'range' and not it.keywords and len(it.args) == 2
                and isinstance(it.args[0], ast.Constant) and it.args[0].value == 1 and type(it.args[0].value) is int
                and isinstance(it.args[1], ast.Call) and isinstance(it.args[1].func, ast.Name) and it.args[1].func.id == 'len'
                and not it.args[1].keywords and len(it.args[1].args) == 1 and isinstance(it.args[1].args[0], ast.Name)
                and isinstance(s.target, ast.Name)):
            return None
        if 'range' in env or 'len' in env or 'range' in self.localfuns or 'len' in self.localfuns: return None
        X, i = it.args[1].args[0].id, s.target.id
        if X not in env or not (isinstance(env[X].ty, tuple) and env[X].ty[0] == 'L' and env[X].ty[1] != '?') or X == i: return None
        cur, prev = f'{X}_at_{i}', f'{X}_at_{i}_minus_1'
        for x in ast.walk(self.fd):
            if isinstance(x, ast.Name) and x.id in (cur, prev): return None
        if cur in env or prev in env: return None
        if X in self.assigned(s.body, env) or i in self.assigned(s.body, env): return None
        ok = [True]
        def is_i(e): return isinstance(e, ast.Name) and e.id == i
        class Rw(ast.NodeTransformer):
            def visit_Subscript(self, node):
                if isinstance(node.value, ast.Name) and node.value.id == X and isinstance(node.ctx, ast.Load):
                    if is_i(node.slice): return ast.copy_location(ast.Name(id=cur, ctx=ast.Load()), node)
                    sl = node.slice
                    if isinstance(sl, ast.BinOp) and isinstance(sl.op, ast.Sub) and is_i(sl.left) and isinstance(sl.right, ast.Constant) \
                            and type(sl.right.value) is int and sl.right.value == 1:
                        return ast.copy_location(ast.Name(id=prev, ctx=ast.Load()), node)
                return self.generic_visit(node)
            def visit_Name(self, node):
                if node.id == i: ok[0] = False      # any other use of the index
                return node
        import copy
        body = [Rw().visit(copy.deepcopy(b)) for b in s.body]
        if not ok[0]: return None
        s2 = ast.For(target=s.target, iter=s.iter, body=body, orelse=s.orelse)
        ast.copy_location(s2, s); ast.fix_missing_locations(s2)
        return X, cur, prev, s2

    def stmt_while(self, s, rest, env, cont, ret):
        """`while test: body` as a fuelled Fixpoint of its own

            Fixpoint <fn>_loop<k> {T} (O : Ops T) [(fuel0 : nat)] (fuel : nat) <captured variables> <carried variables> {struct fuel}
              : option (<carried tuple>) :=
              match fuel with
              | 0 => None                                             (* out of fuel: never a normal value *)
              | S fuel_ => if test then <body>; <fn>_loop<k> O [fuel0] fuel_ <captured> <carried'> else Some (<carried>)
              end.

        carried  = the local variables (re)bound in the body that exist before the loop (`x = e`, `x += e`, `l.append(e)`, `l.pop(0)`);
        captured = the other variables read; they are parameters, so the body cannot update them;
        fuel0    = the budget handed to loops / fuelled functions invoked from the body (present only when there are any);
        `break` is `Some (<carried>)`, `continue` the recursive call.  A test `len(l) > 0 [and p]` on a carried list is a match on
        l, and the body (and p) see l as h :: t.  No return inside a loop.  When the body can raise (only in a function declared
        with 'exc'), the Fixpoint returns `option (outcome (<carried tuple>))`: `Some (Raises e)` at the raise, `Some (Returns ..)` at the exit."""
        tr = self.tr
        if self.ctx_stack[-1] not in ('fun', 'loop', 'foldx'): self.fail('while loop inside a fold / inlined function', s)
        if s.orelse: self.fail('while-else', s)
        if self.recursive: self.fail('while loop in a recursive function (its fuel counts nested calls)', s)
        if self.has_return(s.body) and self.key in CHECKED: return self.stmt_while_returning(s, rest, env, cont, ret)      # round 6
        if self.has_return(s.body): self.fail('return inside a while loop', s)
        for x in ast.walk(s.test):
            if isinstance(x, (ast.NamedExpr, ast.Lambda, ast.ListComp, ast.Await, ast.Yield)): self.fail('while test too complex', s)
        k = self.loop_ids.setdefault(id(s), len(self.loop_ids) + 1)
        lname = f'{self.cname}_loop{k}'
        budget = self.budget()                     # the loop itself runs on the budget of the enclosing context
        names = self.assigned(s.body, env)
        after = self.live_after(rest)
        for v in names:
            if v not in env and v in after: self.fail(f'variable {v} first assigned inside a while loop and used after it', s)
        carried = [v for v in names if v in env]
        if not carried: self.fail('while loop that carries no variable', s)
        inits = [self.need(env, v, s) for v in carried]
        tys = [tr.rtype(a) for a in inits]
        e1, cparams = {}, []
        for nm in sorted((self.loads([s]) & set(env)) - set(carried)):
            v = env[nm]
            if v.ty in ('K', 'I'): e1[nm] = v; continue
            if v.tx is None or not (isinstance(v.ty, tuple) or v.ty in ('S', 'B', 'P', 'M', 'BB', 'IX', 'PATH', 'SEG', 'EDGE') or v.ty in SEGN):
                self.fail(f'while loop captures {nm}, a {v.ty!r}', s)
            pn = 'self_' if nm == 'self' else 'v_' + nm
            e1[nm] = Val(v.ty, pn); cparams.append((pn, v.ty, v.tx))
        lty = ('F', ('LOOP', lname))

        def attempt(tys):
            e = dict(e1)
            for nm, t in zip(carried, tys): e[nm] = Val(t, 'v_' + nm)
            seen = []
            def pack(e2):
                vals = [self.need(e2, v, s) for v in carried]
                seen.append([tr.rtype(x) for x in vals])
                return vals
            def exit_(e2):
                vals = pack(e2)
                return Val(lty, '(Some @RETO@' + (tr.text(Val('TUP', items=vals)) if len(vals) > 1 else tr.text(vals[0])) + '@RETC@)')
            def again(e2):
                vals = pack(e2)
                return Val(lty, f'({lname} O @FUEL0@fuel_ ' + ' '.join([p for p, _, _ in cparams] + [tr.text(x) for x in vals]) + ')')
            noret = lambda v, e2: self.fail('return inside a while loop', s)
            self.loop_stack.append((exit_, again)); self.ctx_stack.append('loop'); self.fuel_names.append('fuel0'); self.fuel_used.append(False)
            self.loop_flags.append({'exc': False})
            try:
                body = self.with_live(carried, lambda: self.loop_test(s, e, lambda e2: self.block(s.body, e2, again, noret), exit_))
                used, exc = self.fuel_used[-1], self.loop_flags[-1]['exc']
            finally:
                self.loop_stack.pop(); self.ctx_stack.pop(); self.fuel_names.pop(); self.fuel_used.pop(); self.loop_flags.pop()
            text = tr.text(body).replace('@FUEL0@', 'fuel0 ' if used else '').replace('@RETO@', '(Returns ' if exc else '').replace('@RETC@', ')' if exc else '')
            return text, used, exc, seen

        for _ in range(4):
            saved = (self.counter, tr.counter)
            self.trial += 1
            try: _, _, _, seen = attempt(tys)
            finally: self.trial -= 1
            self.counter, tr.counter = saved
            new = list(tys)
            for row in seen:
                for i, t in enumerate(row):
                    new[i] = tmatch(new[i], t)
                    if new[i] is None: self.fail(f'while loop changes the type of {carried[i]}: {tys[i]!r} / {t!r}', s)
            if new == tys: break
            tys = new
        else:
            self.fail('types of the carried variables do not settle', s)
        def unresolved(t): return t == '?' or (isinstance(t, tuple) and any(unresolved(x) for x in (t[1] if t[0] == 'T' else t[1:])))
        if any(unresolved(t) for t in tys): self.fail(f'cannot infer the types of the carried variables {carried}: {tys!r}', s)
        body, used, exc, _ = attempt(tys)
        cty = coqty(('T', tuple(tys))) if len(tys) > 1 else coqty(tys[0])
        if exc: cty = f'outcome ({cty})'
        params = ''.join(f' ({p} : {coqty(t)})' for p, t, _ in cparams) + ''.join(f' (v_{nm} : {coqty(t)})' for nm, t in zip(carried, tys))
        text = (f'(* {self.path}: {self.fd.name}, the while loop at line {s.lineno} *)\n'
                f'Fixpoint {lname} {{T : Type}} (O : Ops T){" (fuel0 : nat)" if used else ""} (fuel : nat){params} {{struct fuel}} : option ({cty}) :=\n'
                f'  match fuel with\n  | Datatypes.O => None\n  | S fuel_ =>\n  {body}\n  end.\n')
        if self.trial == 0:
            if lname in tr.loops and tr.loops[lname] != text: self.fail('one while loop translates to two different definitions (it is reached with different environments)', s)
            if lname not in tr.loops:
                tr.loops[lname] = text
                tr.out[self.file].append(text)
        call = f'({lname} O {budget + " " if used else ""}{budget} ' + ' '.join([tx for _, _, tx in cparams] + [tr.text(a) for a in inits]) + ')'
        e2 = dict(env)
        pat = None
        for nm, t in zip(carried, tys):
            fn = self.fresh('v_' + nm)
            e2[nm] = Val(t, fn)
            pat = fn if pat is None else f'({pat}, {fn})'
        r = self.block(rest, e2, cont, ret)
        if r.ty == 'K' and r.const is None: return r
        if is_mtype(tr.rtype(r)) is None or 'fuel' not in is_mtype(tr.rtype(r))[0]:
            raise EffectInJoin(f'{self.path}:{s.lineno} ({self.fd.name}): the code after a while loop is not a fuelled result')
        if exc:
            # the loop may have raised: so may the context it is invoked from (the function, or an enclosing loop)
            if self.ctx_stack[-1] == 'loop': self.loop_flags[-1]['exc'] = True
            self.occurred.add('exc')
            return self.retext(r, f'match {call} with\n  | None => None\n  | Some (Raises e_) => {self.raise_text("e_")}\n  | Some (Returns {pat}) =>\n  {tr.text(r)}\n  end')
        return self.retext(r, f'match {call} with\n  | None => None\n  | Some {pat} =>\n  {tr.text(r)}\n  end')

    def stmt_while_returning(self, s, rest, env, cont, ret):
        """round 6: `while True: body`, the last statement of the function, only ever left by `return` (no break / continue): a fuelled
        Fixpoint whose result IS the result of the function

            Fixpoint <fn>_loop<k> {T} (O : Ops T) [(fuel0 : nat)] (fuel : nat) <captured> <carried> {struct fuel} : <result type of the function> :=
              match fuel with 0 => None | S fuel_ => <body>; <fn>_loop<k> O [fuel0] fuel_ <captured> <carried'> end.

        `return e` is the function's own return (Some (Returns e) / Some e), an operation that raises is Some (Raises ..); falling off
        the end of the body is the recursive call.  In a ZINT function a carried variable initialised with an int literal is a Z (a
        float once the body assigns it one)."""
        tr = self.tr
        if self.ctx_stack[-1] != 'fun' or self.pure_depth: self.fail('a while loop with return elsewhere than at statement level of the function body', s)
        if s.orelse: self.fail('while-else', s)
        if not (isinstance(s.test, ast.Constant) and s.test.value is True): self.fail('a while loop with return whose test is not the constant True', s)
        def own_exit(x):
            if isinstance(x, (ast.Break, ast.Continue)): return True
            if isinstance(x, (ast.For, ast.While)): return False
            return any(own_exit(c) for c in ast.iter_child_nodes(x))
        if any(own_exit(b) for b in s.body): self.fail('break / continue in a while loop with return', s)
        if rest: self.fail('code after a `while True:` loop that is only left by return', s)
        if s not in self.fd.body: self.fail('a while loop with return that is not a statement of the function body itself', s)
        k = self.loop_ids.setdefault(id(s), len(self.loop_ids) + 1)
        lname = f'{self.cname}_loop{k}'
        budget = self.budget()
        names = self.assigned(s.body, env)
        carried = [v for v in names if v in env]
        if not carried: self.fail('while loop that carries no variable', s)
        inits = [self.need(env, v, s) for v in carried]
        tys = [('Z' if (a.ty == 'I' and self.zint) else tr.rtype(a)) for a in inits]
        e1, cparams = {}, []
        for nm in sorted((self.loads([s]) & set(env)) - set(carried)):
            v = env[nm]
            if v.ty in ('K', 'I'): e1[nm] = v; continue
            if v.tx is None or not (isinstance(v.ty, tuple) or v.ty in ('S', 'B', 'P', 'M', 'BB', 'Z') or v.ty in SEGN):
                self.fail(f'while loop captures {nm}, a {v.ty!r}', s)
            pn = 'self_' if nm == 'self' else 'v_' + nm
            e1[nm] = Val(v.ty, pn); cparams.append((pn, v.ty, v.tx))
        open_ty = mtype(self.effects, '?')

        def attempt(tys):
            e = dict(e1)
            for nm, t in zip(carried, tys): e[nm] = Val(t, 'v_' + nm)
            seen = []
            def again(e2):
                vals = [self.need(e2, v, s) for v in carried]
                seen.append([('Z' if (x.ty == 'I' and t == 'Z') else tr.rtype(x)) for x, t in zip(vals, tys)])
                texts = [self.as_type(x, t, s) if (tmatch(tr.rtype(x), t) is not None or (x.ty == 'I' and t in ('Z', 'S'))) else '_' for x, t in zip(vals, tys)]
                return Val(open_ty, f'({lname} O @FUEL0@fuel_ ' + ' '.join([p for p, _, _ in cparams] + texts) + ')')
            self.loop_stack.append(None); self.ctx_stack.append('loop'); self.fuel_names.append('fuel0'); self.fuel_used.append(False)
            self.loop_flags.append({'exc': False})
            try:
                body = self.with_live(carried, lambda: self.block(s.body, e, again, ret))
                used = self.fuel_used[-1]
            finally:
                self.loop_stack.pop(); self.ctx_stack.pop(); self.fuel_names.pop(); self.fuel_used.pop(); self.loop_flags.pop()
            return body, tr.text(body).replace('@FUEL0@', 'fuel0 ' if used else ''), used, seen

        for _ in range(4):
            saved = (self.counter, tr.counter, len(self.pending))
            self.trial += 1
            try: _, _, _, seen = attempt(tys)
            finally: self.trial -= 1
            self.counter, tr.counter = saved[0], saved[1]; del self.pending[saved[2]:]
            new = list(tys)
            for row in seen:
                for i, t in enumerate(row):
                    m = tmatch(new[i], t)
                    if m is None and new[i] == 'Z' and t == 'S' and inits[i].ty == 'I': m = 'S'      # an int variable that the body makes a float
                    if m is None and new[i] == 'S' and t == 'Z' and inits[i].ty == 'I': m = 'S'
                    if m is None: self.fail(f'while loop changes the type of {carried[i]}: {new[i]!r} / {t!r}', s)
                    new[i] = m
            if new == tys: break
            tys = new
        else:
            self.fail('types of the carried variables do not settle', s)
        def unresolved(t): return t == '?' or (isinstance(t, tuple) and any(unresolved(x) for x in (t[1] if t[0] == 'T' else t[1:])))
        if any(unresolved(t) for t in tys): self.fail(f'cannot infer the types of the carried variables {carried}: {tys!r}', s)
        body, text, used, _ = attempt(tys)
        rty = tr.rtype(body)
        if is_mtype(rty) is None or is_mtype(rty)[0] != set(self.effects) or unresolved(rty): self.fail(f'a while loop with return of type {rty!r}', s)
        params = ''.join(f' ({p} : {coqty(t)})' for p, t, _ in cparams) + ''.join(f' (v_{nm} : {coqty(t)})' for nm, t in zip(carried, tys))
        ftext = (f'(* {self.path}: {self.fd.name}, the while loop at line {s.lineno} *)\n'
                 f'Fixpoint {lname} {{T : Type}} (O : Ops T){" (fuel0 : nat)" if used else ""} (fuel : nat){params} {{struct fuel}} : {coqty(rty)} :=\n'
                 f'  match fuel with\n  | Datatypes.O => None\n  | S fuel_ =>\n  {text}\n  end.\n')
        if self.trial == 0:
            if lname in tr.loops and tr.loops[lname] != ftext: self.fail('one while loop translates to two different definitions (it is reached with different environments)', s)
            if lname not in tr.loops:
                tr.loops[lname] = ftext
                tr.out[self.file].append(ftext)
        call = f'({lname} O {budget + " " if used else ""}{budget} ' + ' '.join([tx for _, _, tx in cparams] + [self.as_type(a, t, s) for a, t in zip(inits, tys)]) + ')'
        return Val(rty, call)

    def loop_test(self, s, e, body_k, exit_k):
        """the test of a while loop: plain, or `len(X) > 0 [and rest]` / `X [and rest]` on a dynamic list variable X"""
        test = s.test
        conj = list(test.values) if isinstance(test, ast.BoolOp) and isinstance(test.op, ast.And) else [test]
        lt = self.list_test(conj[0], e)
        def cond(c, body, ex):
            if c.ty == 'K': return body() if c.const else ex()
            b, x = body(), ex()
            return Val(b.ty, f'(if {c.tx} then\n  {self.tr.text(b)}\n  else {self.tr.text(x)})')
        if lt is not None and not lt[1]:
            X = lt[0]
            e2, h, t = self.cons_view(X, e)
            c = self.conj(self.purely(lambda: [self.truth(self.expr(c_, e2), s) for c_ in conj[1:]]), 'andb')
            inner = cond(c, lambda: body_k(e2), lambda: exit_k(e2))
            ex = exit_k(e)
            return Val(inner.ty, f'match {e[X].tx} with\n  | [] => {self.tr.text(ex)}\n  | {h} :: {t} =>\n  {self.tr.text(inner)}\n  end')
        c = self.purely(lambda: self.truth(self.expr(test, e), s))
        return cond(c, lambda: body_k(e), lambda: exit_k(e))

    def elementwise_idioms(self, s, rest, env, cont, ret):
        """two loops that replace every element by a function of itself, as a `map`; returns None when s is neither

             for i in range(0, len(X)): X[i] = E         X a dynamic list variable; E mentions i and X only as X[i]
             for k in D: D[k] = E                         D a dict variable; E mentions D only as D[k]

        (the iterations are independent: iteration i reads and writes element i only)"""
        import copy
        tr = self.tr
        if s.orelse or len(s.body) != 1 or not isinstance(s.body[0], ast.Assign) or len(s.body[0].targets) != 1 or not isinstance(s.target, ast.Name): return None
        a, i = s.body[0], s.target.id
        tg = a.targets[0]
        if not (isinstance(tg, ast.Subscript) and isinstance(tg.value, ast.Name) and isinstance(tg.slice, ast.Name) and tg.slice.id == i): return None
        X = tg.value.id
        if X not in env or X == i: return None
        xv = env[X]
        is_dict = isinstance(xv.ty, tuple) and xv.ty[0] == 'DICT'
        if is_dict:
            if not (isinstance(s.iter, ast.Name) and s.iter.id == X): return None
        else:
            it = s.iter
            if 'range' in env or 'len' in env or 'range' in self.localfuns or 'len' in self.localfuns: return None
            if not (isinstance(it, ast.Call) and isinstance(it.func, ast.Name) and it.func.id == 'range' and not it.keywords): return None
            ar = it.args
            if len(ar) == 2 and isinstance(ar[0], ast.Constant) and type(ar[0].value) is int and ar[0].value == 0: ar = ar[1:]
            if not (len(ar) == 1 and isinstance(ar[0], ast.Call) and isinstance(ar[0].func, ast.Name) and ar[0].func.id == 'len' and not ar[0].keywords
                    and len(ar[0].args) == 1 and isinstance(ar[0].args[0], ast.Name) and ar[0].args[0].id == X): return None
            if not (isinstance(xv.ty, tuple) and xv.ty[0] == 'L' and xv.ty[1] != '?' and xv.tx is not None): return None
        if any(i in l for l in self.live_stack) or self.reads_free(rest, i): self.fail(f'loop variable {i} used after the loop', s)
        cur = f'{X}_at_{i}'
        if cur in env or any(isinstance(y, ast.Name) and y.id == cur for y in ast.walk(self.fd)): return None
        ok = [True]
        class Rw(ast.NodeTransformer):
            def visit_Subscript(self, node):
                if isinstance(node.value, ast.Name) and node.value.id == X and isinstance(node.ctx, ast.Load) and isinstance(node.slice, ast.Name) and node.slice.id == i:
                    return ast.copy_location(ast.Name(id=cur, ctx=ast.Load()), node)
                return self.generic_visit(node)
            def visit_Name(self, node):
                if node.id == X or (node.id == i and not is_dict): ok[0] = False
                return node
        E = Rw().visit(copy.deepcopy(a.value)); ast.fix_missing_locations(E)
        if not ok[0]: return None
        e2 = dict(env)
        if is_dict:
            if xv.ty[1] == '?' or xv.ty[2] == '?' or xv.tx is None: self.fail(f'loop over a dict of unknown type {xv.ty!r}', s)
            e2[cur] = Val(xv.ty[2], '(snd kv_)'); e2[i] = Val(xv.ty[1], '(fst kv_)')
            v = self.purely(lambda: self.in_ctx('pure', lambda: self.expr(E, e2)))
            if tmatch(tr.rtype(v), xv.ty[2]) is None: self.fail(f'the loop changes the type of the values of {X}: {xv.ty[2]!r} / {tr.rtype(v)!r}', s)
            nv = Val(xv.ty, f'(map (fun kv_ => (fst kv_, {self.as_type(v, xv.ty[2], s)})) {xv.tx})')
        else:
            e2[cur] = Val(xv.ty[1], 'x_'); e2.pop(i, None)
            v = self.purely(lambda: self.in_ctx('pure', lambda: self.expr(E, e2)))
            if tmatch(tr.rtype(v), xv.ty[1]) is None: self.fail(f'the loop changes the type of the elements of {X}: {xv.ty[1]!r} / {tr.rtype(v)!r}', s)
            nv = Val(xv.ty, f'(map (fun x_ => {self.as_type(v, xv.ty[1], s)}) {xv.tx})')
        return self.bind(X, nv, env, lambda e: self.block(rest, e, cont, ret))

    def zip_update_idiom(self, s, rest, env, cont, ret):
        """round 6:  for i in range(0, len(A)): B[i] = E     A, B two different dynamic list variables; E mentions i, A and B only as A[i] and B[i]
        and may consume fuel / raise (at statement level of a function declared with 'exc'):

            match zip_update[_option]_outcome (fun a b => <E, ending in Returns ..>) A B with .. | Returns B' => <the rest, B rebound> end

        Iteration i reads A[i] (always in range) and B[i] -- IndexError when B is shorter than A -- and replaces B[i]; the items of B beyond
        len(A) stay.  The first iteration that fails ends the loop.  Returns None when s is not of this shape."""
        import copy
        tr = self.tr
        if s.orelse or len(s.body) != 1 or not isinstance(s.body[0], ast.Assign) or len(s.body[0].targets) != 1 or not isinstance(s.target, ast.Name): return None
        a_, i = s.body[0], s.target.id
        tg = a_.targets[0]
        if not (isinstance(tg, ast.Subscript) and isinstance(tg.value, ast.Name) and isinstance(tg.slice, ast.Name) and tg.slice.id == i): return None
        B = tg.value.id
        it = s.iter
        if 'range' in env or 'len' in env or 'range' in self.localfuns or 'len' in self.localfuns: return None
        if not (isinstance(it, ast.Call) and isinstance(it.func, ast.Name) and it.func.id == 'range' and not it.keywords): return None
        ar = it.args
        if len(ar) == 2 and isinstance(ar[0], ast.Constant) and type(ar[0].value) is int and ar[0].value == 0: ar = ar[1:]
        if not (len(ar) == 1 and isinstance(ar[0], ast.Call) and isinstance(ar[0].func, ast.Name) and ar[0].func.id == 'len' and not ar[0].keywords
                and len(ar[0].args) == 1 and isinstance(ar[0].args[0], ast.Name)): return None
        A = ar[0].args[0].id
        if A == B or A == i or B == i or A not in env or B not in env: return None
        def dyn(v): return isinstance(v.ty, tuple) and v.ty[0] == 'L' and v.ty[1] != '?' and v.tx is not None
        if not (dyn(env[A]) and dyn(env[B])): return None
        if 'exc' not in self.effects or self.ctx_stack[-1] not in ('fun', 'foldx') or self.pure_depth: return None
        if any(i in l for l in self.live_stack) or self.reads_free(rest, i): self.fail(f'loop variable {i} used after the loop', s)
        ea, eb = f'{A}_at_{i}', f'{B}_at_{i}'
        if ea in env or eb in env or any(isinstance(y, ast.Name) and y.id in (ea, eb) for y in ast.walk(self.fd)): return None
        ok = [True]
        class Rw(ast.NodeTransformer):
            def visit_Subscript(self, node):
                if isinstance(node.value, ast.Name) and node.value.id in (A, B) and isinstance(node.ctx, ast.Load) and isinstance(node.slice, ast.Name) and node.slice.id == i:
                    return ast.copy_location(ast.Name(id=ea if node.value.id == A else eb, ctx=ast.Load()), node)
                return self.generic_visit(node)
            def visit_Name(self, node):
                if node.id in (A, B, i): ok[0] = False
                return node
        E = Rw().visit(copy.deepcopy(a_.value)); ast.fix_missing_locations(E)
        if not ok[0]: return None
        ta, tb = env[A].ty[1], env[B].ty[1]
        e2 = dict(env); e2[ea] = Val(ta, 'v_' + ea); e2[eb] = Val(tb, 'v_' + eb); e2.pop(i, None)
        mark = len(self.pending)
        el = self.in_ctx('foldx', lambda: self.expr(E, e2))
        ents = self.pending[mark:]
        del self.pending[mark:]
        if tmatch(tr.rtype(el), tb) is None: self.fail(f'the loop changes the type of the elements of {B}: {tb!r} / {tr.rtype(el)!r}', s)
        fuelled = 'fuel' in self.effects
        okt = f'(Returns {self.as_type(el, tb, s)})'
        if fuelled: okt = f'(Some {okt})'
        body = self.in_ctx('foldx', lambda: self.wrap(ents, okt, 'foldx', s))
        comb = 'zip_update_option_outcome' if fuelled else 'zip_update_outcome'
        r = self.fresh('r')
        self.push_effect({'effects': set(self.effects), 'what': 'element-wise update of a list from another one', 'kind': 'call',
                          'text': f'({comb} (fun (v_{ea} : {coqty(ta)}) (v_{eb} : {coqty(tb)}) =>\n  {body}) {env[A].tx} {env[B].tx})', 'pat': r}, s)
        return self.bind(B, Val(env[B].ty, r), env, lambda e: self.block(rest, e, cont, ret))

    def stmt_for(self, s, rest, env, cont, ret):
        tr = self.tr
        r = self.elementwise_idioms(s, rest, env, cont, ret)
        if r is not None: return r
        if self.key in CHECKED:
            r = self.zip_update_idiom(s, rest, env, cont, ret)      # round 6
            if r is not None: return r
        def own_exit(x):
            if isinstance(x, (ast.Break, ast.Continue)): return True
            if isinstance(x, (ast.For, ast.While)): return False
            return any(own_exit(c) for c in ast.iter_child_nodes(x))
        if any(own_exit(b) for b in s.body):
            def own_continue(x):
                if isinstance(x, ast.Continue): return True
                if isinstance(x, (ast.For, ast.While)): return False
                return any(own_continue(c) for c in ast.iter_child_nodes(x))
            if any(own_continue(b) for b in s.body): self.fail('continue in a for loop', s)
            return self.break_fold(s, rest, env, cont, ret)
        pl = self.pairs_loop(s, env)
        if pl is not None:
            X, cur, prev, s2 = pl
            if s.orelse: self.fail('for-else', s)
            if self.has_return(s2.body): self.fail('return inside a loop over consecutive pairs', s)
            if s.target.id in self.live_after(rest): self.fail(f'loop index {s.target.id} used after the loop', s)
            t = env[X].ty[1]
            e1 = dict(env); e1[cur] = Val(t, 'v_' + cur); e1[prev] = Val(t, 'v_' + prev)
            e1.pop(s.target.id, None)
            itv = Val(('L', ('T', (t, t))), f'(combine (tl {env[X].tx}) {env[X].tx})')
            return self.fold_loop(s2, rest, env, e1, [cur, prev], f"'(v_{cur}, v_{prev})", itv, cont, ret)
        cl = self.count_loop(s, env)
        if cl is not None:
            # for _ in range(0, len(X)): the body runs len(X) times (len is read once, on entry) and never looks at the index
            if s.orelse: self.fail('for-else', s)
            if self.has_return(s.body): self.fail('return inside a counting loop', s)
            if any(s.target.id in l for l in self.live_stack) or self.reads_free(rest, s.target.id): self.fail(f'loop index {s.target.id} used after the loop', s)
            itv = Val(('L', 'UNIT'), f'(repeat tt (length {env[cl].tx}))')
            return self.pure_or_raising(s, rest, env, cont, ret,
                                        lambda: self.fold_loop(s, rest, env, dict(env), [], '_', itv, cont, ret),
                                        lambda: self.fold_loop_x(s, rest, env, dict(env), [], '_', itv, cont, ret))
        it = self.deref(self.expr(s.iter, env), env, s)
        if isinstance(it.ty, tuple) and it.ty[0] == 'IT':
            if not isinstance(s.iter, ast.Call): self.fail('an iterator that is not consumed where it is produced', s)
            it = Val(('L', it.ty[1]), it.tx)
        if s.orelse: self.fail('for-else', s)
        if isinstance(it.ty, tuple) and it.ty[0] == 'DQ': it = Val(('L', it.ty[1]), it.tx)       # iteration over a deque: left to right
        if isinstance(it.ty, tuple) and it.ty[0] == 'L' and not self.has_return(s.body):
            if isinstance(s.target, ast.Name):
                x = s.target.id
                def as_x():
                    e1 = dict(env); e1[x] = Val(it.ty[1], 'v_' + x)
                    return self.fold_loop_x(s, rest, env, e1, [x], 'v_' + x, it, cont, ret)
                return self.pure_or_raising(s, rest, env, cont, ret, lambda: self.stmt_for_dyn(s, it, rest, env, cont, ret), as_x)
            et = it.ty[1]
            tn = [e.id for e in s.target.elts if isinstance(e, ast.Name)] if isinstance(s.target, ast.Tuple) else []
            if tn and len(tn) == len(s.target.elts) and len(set(tn)) == len(tn) and isinstance(et, tuple) and et[0] == 'T' and len(et[1]) == len(tn):
                def as_x():
                    e1 = dict(env)
                    xpat = None
                    for nm, ty in zip(tn, et[1]):
                        e1[nm] = Val(ty, 'v_' + nm)
                        xpat = 'v_' + nm if xpat is None else f'({xpat}, v_{nm})'
                    return self.fold_loop_x(s, rest, env, e1, tn, f"'({xpat} : {coqty(et)})", it, cont, ret)
                return self.pure_or_raising(s, rest, env, cont, ret, lambda: self.stmt_for_dyn(s, it, rest, env, cont, ret), as_x)
        return self.stmt_for_dyn(s, it, rest, env, cont, ret)

    def pure_or_raising(self, s, rest, env, cont, ret, pure, raising):
        """a loop over a dynamic list: as a plain fold when its body cannot raise; else, at statement level of a function declared to
        raise, with fold_outcome"""
        tr = self.tr
        if not (self.effects and self.ctx_stack[-1] in ('fun', 'foldx') and self.pure_depth == 0): return pure()      # (round 4: also nested in such a loop)
        saved = (self.counter, tr.counter, len(self.pending))
        try:
            return pure()
        except Untranslatable as first:
            self.counter, tr.counter = saved[0], saved[1]; del self.pending[saved[2]:]
            try:
                return raising()
            except EffectInJoin:
                raise
            except Untranslatable as second:
                raise Untranslatable(f'{second} [as a plain fold: {first}]')

    def count_loop(self, s, env):
        """`for i in range(0, len(X))` / `range(len(X))`, X a dynamic list or deque variable, i never read -> X"""
        it = s.iter
        if not (isinstance(it, ast.Call) and isinstance(it.func, ast.Name) and it.func.id == 'range' and not it.keywords and isinstance(s.target, ast.Name)): return None
        if 'range' in env or 'len' in env or 'range' in self.localfuns or 'len' in self.localfuns: return None
        a = it.args
        if len(a) == 2 and isinstance(a[0], ast.Constant) and type(a[0].value) is int and a[0].value == 0: a = a[1:]
        if not (len(a) == 1 and isinstance(a[0], ast.Call) and isinstance(a[0].func, ast.Name) and a[0].func.id == 'len' and not a[0].keywords
                and len(a[0].args) == 1 and isinstance(a[0].args[0], ast.Name)): return None
        X = a[0].args[0].id
        if X not in env or not (isinstance(env[X].ty, tuple) and env[X].ty[0] in ('L', 'DQ') and env[X].ty[1] != '?' and env[X].tx is not None): return None
        if any(isinstance(y, ast.Name) and y.id == s.target.id for b in s.body for y in ast.walk(b)): return None
        return X

    def deref(self, v, env, n=None):
        """the deque a reference value stands for: env's current value of the cell (static), or a choice between the two cells"""
        if v.ty == 'K' and isinstance(v.const, tuple) and v.const[0] == 'cellref': return env[v.const[1]]
        if isinstance(v.ty, tuple) and v.ty[0] == 'RF':
            a, b = [env[c] for c in v.ty[1]]
            t = tmatch(a.ty, b.ty)
            if t is None: self.fail(f'the two deques have different types {a.ty!r} / {b.ty!r}', n)
            return Val(t, f'(if {v.tx} then {self.tr.text(a)} else {self.tr.text(b)})')
        return v

    def stmt_for_dyn(self, s, it, rest, env, cont, ret):
        tr = self.tr
        if it.ty == 'FL':
            itname = s.iter.id if isinstance(s.iter, ast.Name) else None
            items = list(it.items)
            def go(i, e):
                if i == len(items): return self.block(rest, e, cont, ret)
                def after(e2):
                    if itname is not None and isinstance(s.target, ast.Name) and s.target.id in e2:
                        cur = e2[itname]
                        if cur.ty == 'FL' and i < len(cur.items) and e2[s.target.id] is not cur.items[i]:
                            new = list(cur.items); new[i] = e2[s.target.id]
                            e2 = dict(e2); e2[itname] = Val('FL', items=new)
                    return go(i + 1, e2)
                return self.assign(s.target, items[i], e, lambda e1: self.block(s.body, e1, after, ret), s)
            return self.with_live(self.loads(s.body) | self.loads(rest), lambda: go(0, env))
        if isinstance(it.ty, tuple) and it.ty[0] == 'L' and isinstance(s.target, ast.Tuple):
            # for a, b in <list of pairs>: a fold whose step function takes the pair apart
            et = it.ty[1]
            tn = [e.id for e in s.target.elts if isinstance(e, ast.Name)]
            if len(tn) != len(s.target.elts) or len(set(tn)) != len(tn) or not (isinstance(et, tuple) and et[0] == 'T' and len(et[1]) == len(tn)):
                self.fail('dynamic for target', s)
            if self.has_return(s.body): self.fail('return inside a loop over pairs', s)
            e1 = dict(env)
            xpat = None
            for nm, ty in zip(tn, et[1]):
                e1[nm] = Val(ty, 'v_' + nm)
                xpat = 'v_' + nm if xpat is None else f'({xpat}, v_{nm})'
            return self.fold_loop(s, rest, env, e1, tn, "'" + xpat, it, cont, ret)
        if isinstance(it.ty, tuple) and it.ty[0] == 'L':
            if not isinstance(s.target, ast.Name): self.fail('dynamic for target', s)
            x = s.target.id
            et = it.ty[1]
            e1 = dict(env); e1[x] = Val(et, 'v_' + x)
            if self.has_return(s.body):
                names = [v for v in self.assigned(s.body, env) if v != x]
                if names: self.fail('find-first loop with assignments', s)
                none = Val('K', const=None)
                body = self.in_ctx('pure', lambda: self.block(s.body, e1, lambda e: none, lambda v, e: Val('SOME', items=[ret(v, e)])))
                bt, rty = self.optionise(body, s)
                r = self.block(rest, env, cont, ret)
                nm = self.fresh('r')
                x_, y_, ty = self.unify(Val(rty, nm), r, s)
                return Val(ty, f'(match find_first (fun v_{x} => {bt}) {it.tx} with Some {nm} => {x_} | None => {y_} end)')
            names = [v for v in self.assigned(s.body, env) if v != x]
            for v in names:
                # a variable first assigned inside the loop is local to one iteration, provided nothing reads it afterwards
                if v not in env and (any(v in l for l in self.live_stack) or self.reads_free(rest, v)):
                    self.fail(f'variable {v} first assigned inside a loop and used after it', s)
            names = [v for v in names if v in env]
            if not names: return self.block(rest, env, cont, ret)
            accs = [self.need(env, v, s) for v in names]
            tys = [tr.rtype(a) for a in accs]
            inner = {nm: self.fresh('v_' + nm) for nm in names}
            def run(tys):
                for nm, t in zip(names, tys): e1[nm] = Val(t, inner[nm])
                return self.in_ctx('pure', lambda: self.with_live(names, lambda: self.block(s.body, e1, lambda e: Val('TUP', items=[self.need(e, v, s) for v in names]), lambda v, e: self.fail('return in fold', s))))
            if self.key in ROUND6: tys = self.infer_append_types(names, tys, s.body, e1)      # round 6
            saved_c = (self.counter, tr.counter)
            body = None
            cand = [a.ty == 'I' for a in accs]
            if any(cand) and self.effects:
                # round 4: a counter that starts as an int literal and is only ever assigned ints (literals, run-time ints): a Z
                tysZ = ['Z' if c else t for c, t in zip(cand, tys)]
                try:
                    b2 = run(tysZ)
                    if b2.ty == 'TUP': bts = [tr.rtype(x) if x.ty != 'I' else 'Z' for x in b2.items]
                    else:
                        bt_ = tr.rtype(b2)
                        bts = list(bt_[1]) if isinstance(bt_, tuple) and bt_[0] == 'T' and len(bt_[1]) == len(accs) else ([bt_] if len(accs) == 1 else [None] * len(accs))
                    okZ = all((not c) or bts[i] == 'Z' for i, c in enumerate(cand))
                except Untranslatable:
                    okZ = False
                if okZ: body, tys, accs = b2, tysZ, [Val('Z', self.Zt(a)) if c else a for c, a in zip(cand, accs)]
                else: self.counter, tr.counter = saved_c
            if body is None: body = run(tys)
            tys = self.refine_acc_types(tys, body)
            pat = None
            for nm in names: pat = inner[nm] if pat is None else f'({pat}, {inner[nm]})'
            init = tr.text(Val('TUP', items=accs)) if len(accs) > 1 else tr.text(accs[0])
            bt = tr.text(body) if len(accs) > 1 or body.ty != 'TUP' else tr.text(body.items[0])
            e2 = dict(env)
            outer = {nm: self.fresh('v_' + nm) for nm in names}
            opat = None
            for nm, t in zip(names, tys):
                e2[nm] = Val(t, outer[nm])
                opat = outer[nm] if opat is None else f'({opat}, {outer[nm]})'
            r = self.block(rest, e2, cont, ret)
            lp = "'" + pat if len(names) > 1 else pat
            olp = "'" + opat if len(names) > 1 else opat
            return self.retext(r, f"let {olp} := fold_left (fun {lp} v_{x} => {bt}) {it.tx} {init} in\n  {tr.text(r)}")
        self.fail(f'for over {it.ty!r}', s)

    def infer_append_types(self, names, tys, body, e1):
        """round 6: the element type of an accumulator that starts as `[]`, from the first `<acc>.append(<e>)` in the loop body whose
        argument has a type in the loop's environment"""
        tr = self.tr
        out = list(tys)
        for i, (nm, t) in enumerate(zip(names, tys)):
            if t != ('L', '?'): continue
            if (self.key, nm) in ACC_TYPES: out[i] = ACC_TYPES[(self.key, nm)]; continue
            for st in body:
                for x in ast.walk(st):
                    if isinstance(x, ast.Call) and isinstance(x.func, ast.Attribute) and x.func.attr == 'append' and isinstance(x.func.value, ast.Name) \
                            and x.func.value.id == nm and len(x.args) == 1 and not x.keywords and out[i] == ('L', '?'):
                        saved = (self.counter, tr.counter, len(self.pending))
                        self.trial += 1
                        try:
                            v = self.purely(lambda: self.expr(x.args[0], e1))
                            et = tr.rtype(v)
                            if et in SEGN and self.key in CLIP_FUNS: et = 'SEG'      # (a list that collects segments: of mixed classes)
                            if et != '?' and not (isinstance(et, tuple) and '?' in et): out[i] = ('L', et)
                        except Untranslatable: pass
                        finally:
                            self.trial -= 1
                            self.counter, tr.counter = saved[0], saved[1]; del self.pending[saved[2]:]
        return out

    def fold_loop(self, s, rest, env, e1, targets, xpat, it, cont, ret):
        """`for <targets> in <dynamic list>` without return, as fold_left over the variables assigned in the body.  A variable
        that does not exist before the loop is local to one iteration (it must not be read after the loop)."""
        tr = self.tr
        names = [v for v in self.assigned(s.body, env) if v not in targets]
        after = self.live_after(rest)
        for v in names:
            if v not in env and v in after and (any(v in l for l in self.live_stack) or self.reads_free(rest, v)): self.fail(f'variable {v} first assigned inside a loop and used after it', s)
        for v in targets:
            if v in after and (any(v in l for l in self.live_stack) or self.reads_free(rest, v)): self.fail(f'loop variable {v} used after the loop', s)
        names = [v for v in names if v in env]
        if not names: return self.block(rest, env, cont, ret)
        accs = [self.need(env, v, s) for v in names]
        tys = [tr.rtype(a) for a in accs]
        inner = {nm: self.fresh('v_' + nm) for nm in names}
        if self.key in ROUND6: tys = self.infer_append_types(names, tys, s.body, e1)      # round 6
        for nm, t in zip(names, tys): e1[nm] = Val(t, inner[nm])
        body = self.in_ctx('pure', lambda: self.with_live(names, lambda: self.block(s.body, e1, lambda e: Val('TUP', items=[self.need(e, v, s) for v in names]), lambda v, e: self.fail('return in fold', s))))
        if body.ty == 'TUP':
            for i, (b, t) in enumerate(zip(body.items, tys)):
                if tmatch(tr.rtype(b), t) is None: self.fail(f'loop changes the type of an accumulator: {tr.rtype(b)!r} / {t!r}', s)
                tys[i] = tmatch(tr.rtype(b), t)
        tys = self.refine_acc_types(tys, body)
        pat = None
        for nm in names: pat = inner[nm] if pat is None else f'({pat}, {inner[nm]})'
        init = tr.text(Val('TUP', items=accs)) if len(accs) > 1 else tr.text(accs[0])
        bt = tr.text(body) if len(accs) > 1 or body.ty != 'TUP' else tr.text(body.items[0])
        e2 = dict(env)
        outer = {nm: self.fresh('v_' + nm) for nm in names}
        opat = None
        for nm, t in zip(names, tys):
            e2[nm] = Val(t, outer[nm])
            opat = outer[nm] if opat is None else f'({opat}, {outer[nm]})'
        r = self.block(rest, e2, cont, ret)
        lp = "'" + pat if len(names) > 1 else pat
        olp = "'" + opat if len(names) > 1 else opat
        return self.retext(r, f"let {olp} := fold_left (fun {lp} {xpat} => {bt}) {it.tx} {init} in\n  {tr.text(r)}")

    def refine_acc_types(self, tys, body):
        """element types left open by an empty literal list (`acc = []` before the loop) as the loop body determines them"""
        if not self.effects: return tys        # (only where results must be fully typed: the functions declared in EFFECTS)
        bt = None
        if body.ty == 'TUP' and len(body.items) == len(tys): bt = [self.tr.rtype(b) for b in body.items]
        elif isinstance(body.ty, tuple) and body.ty[0] == 'T' and len(body.ty[1]) == len(tys): bt = list(body.ty[1])
        if bt is None: return tys
        return [tmatch(t, b) if tmatch(t, b) is not None else t for t, b in zip(tys, bt)]

    def loop_names(self, s, rest, env, targets, unbound=None):
        names = [v for v in self.assigned(s.body, env) if v not in targets]
        for v in names:
            if v not in env and (any(v in l for l in self.live_stack) or self.reads_free(rest, v)):
                # round 5: (fold_loop_x, in a function that may raise) such a variable is carried as ('U', t): None while it is unbound
                if unbound is not None and 'exc' in self.effects and v not in self.cells and v not in self.closure_params: unbound.append(v); continue
                self.fail(f'variable {v} first assigned inside a loop and used after it', s)
        for v in targets:
            if any(v in l for l in self.live_stack) or self.reads_free(rest, v): self.fail(f'loop variable {v} used after the loop', s)
        return [v for v in names if v in env]

    def reads_free(self, stmts, v):
        """may the statements read the variable v as it is on entry?  A read after a definite assignment at the same or an outer
        level of the statement list (`v = e` with e not reading v; both branches of an if), or inside the body of a `for v in ..`,
        is not one.  Conservative: every other Load of the name counts (nested functions and lambdas included)."""
        def loads(x):
            if isinstance(x, (ast.ListComp, ast.GeneratorExp, ast.SetComp)) and self.key in ROUND6 and x.generators \
                    and any(isinstance(y, ast.Name) and y.id == v for y in ast.walk(x.generators[0].target)):
                return loads(x.generators[0].iter)      # round 6: the comprehension binds v itself: only its first iterable sees the incoming v
            if isinstance(x, ast.Name): return x.id == v and isinstance(x.ctx, ast.Load)
            return any(loads(c) for c in ast.iter_child_nodes(x))
        def mentions(x): return any(isinstance(y, ast.Name) and y.id == v for y in ast.walk(x))
        def binds(t): return any(isinstance(y, ast.Name) and y.id == v for y in ast.walk(t))
        def block(sts):
            # 'read': may read the incoming v; 'assigned': v is definitely rebound, without having been read; None: neither
            for st in sts:
                r = stmt(st)
                if r is not None: return r
            return None
        def stmt(st):
            if isinstance(st, ast.Assign):
                if loads(st.value) or any(loads(t) for t in st.targets if not isinstance(t, (ast.Name, ast.Tuple))): return 'read'
                if any(isinstance(t, ast.Name) and t.id == v for t in st.targets): return 'assigned'
                if any(isinstance(t, ast.Tuple) and all(isinstance(e, ast.Name) for e in t.elts) and binds(t) for t in st.targets): return 'assigned'
                return 'read' if any(mentions(t) for t in st.targets) else None
            if isinstance(st, ast.For):
                if loads(st.iter): return 'read'
                if binds(st.target):
                    return 'read' if block(st.orelse) == 'read' else None
                if block(st.body) == 'read' or block(st.orelse) == 'read': return 'read'
                return None
            if isinstance(st, ast.While):
                if loads(st.test) or block(st.body) == 'read' or block(st.orelse) == 'read': return 'read'
                return None
            if isinstance(st, ast.If):
                if loads(st.test): return 'read'
                a, b = block(st.body), block(st.orelse)
                if a == 'read' or b == 'read': return 'read'
                return 'assigned' if a == 'assigned' and b == 'assigned' else None
            if self.key in ROUND6 and not loads(st) and not any(isinstance(y, ast.Name) and y.id == v and isinstance(y.ctx, (ast.Store, ast.Del)) for y in ast.walk(st) if not isinstance(y, ast.comprehension)): return None
            return 'read' if mentions(st) else None
        return block(stmts) == 'read'

    def fold_loop_x(self, s, rest, env, e1, targets, xpat, it, cont, ret):
        """`for <targets> in <dynamic list>` whose body may raise (a call of a raising function, a `raise`), at statement level of a
        function declared with 'exc':

            match fold_outcome (fun <accumulators> <item> => <body, ending in Returns (<accumulators>)>) <list> <initial values> with
            | Raises e_ => Raises e_ | Returns <accumulators> => <what follows the loop> end

        fold_outcome stops at the first item whose step raises.  No return / break / continue inside.  In a function declared
        with 'fuel' the body may contain `while` loops and calls of fuelled functions (they all run on the function's budget):
        fold_option (None = out of fuel, Some <accumulators>), and with both effects fold_option_outcome."""
        tr = self.tr
        if self.ctx_stack[-1] not in ('fun', 'foldx') or self.pure_depth or not self.effects:
            self.fail('a loop whose body may raise / consume fuel, elsewhere than at statement level of a function declared with effects', s)
        fx_ = set(self.effects)
        comb = {('exc',): 'fold_outcome', ('fuel',): 'fold_option', ('exc', 'fuel'): 'fold_option_outcome'}[tuple(sorted(fx_))]
        def ok(tx):
            if 'exc' in fx_: tx = f'(Returns {tx})'
            if 'fuel' in fx_: tx = f'(Some {tx})'
            return tx
        ub = []
        names = self.loop_names(s, rest, env, targets, unbound=ub)
        if ub:
            # round 5: variables first assigned in the body and read after the loop: unbound (None) on entry
            env = dict(env); e1 = dict(e1)
            for v in ub: env[v] = Val(('U', '?'), 'None'); e1[v] = env[v]
            names = [v for v in self.assigned(s.body, env) if v in names or v in ub]
        if not names: self.fail('a loop whose body may raise and that carries no variable', s)
        # round 6: a list literal of fixed shape whose items the body updates one by one is carried as the tuple of its items
        flshape = {v: self.fl_tuple_type(env[v]) for v in names if env[v].ty == 'FL' and self.fixed_list_shape(v) is not None and self.fl_tuple_type(env[v]) is not None}
        accs = [env[v] if v in flshape else self.need(env, v, s) for v in names]
        def acc_type(v):
            # round 4: an accumulator that starts as None is an Optional of what the body assigns to it
            if v.ty == 'K' and v.const is None: return ('O', '?')
            if v.ty == 'TUP': return ('T', tuple(acc_type(i) for i in v.items))
            if v.ty == 'I' and self.zint: return 'Z'      # round 6 (ZINT)
            if v.ty == 'FL' and self.fl_tuple_type(v) is not None and flshape: return self.fl_tuple_type(v)
            return tr.rtype(v)
        def absorb(t, u):
            m = tmatch(t, u)
            if m is not None: return m
            if isinstance(t, tuple) and t[0] in ('O', 'U') and not (isinstance(u, tuple) and u[0] == t[0]):
                m = absorb(t[1], u)
                return (t[0], m) if m is not None else None
            if isinstance(t, tuple) and isinstance(u, tuple) and t[0] == 'T' and u[0] == 'T' and len(t[1]) == len(u[1]):
                ms = [absorb(x, y) for x, y in zip(t[1], u[1])]
                return ('T', tuple(ms)) if all(m is not None for m in ms) else None
            return None
        tys = [acc_type(a) for a in accs]
        def unresolved(t):
            if t == '?': return True
            if isinstance(t, tuple) and t[0] == 'T': return any(unresolved(x) for x in t[1])
            if isinstance(t, tuple) and t[0] in ('L', 'DQ', 'O', 'X', 'F', 'U'): return unresolved(t[1])
            return False

        def attempt(tys, final):
            inner = {nm: self.fresh('v_' + nm) for nm in names if nm not in flshape}
            e = dict(e1)
            for nm, t in zip(names, tys):
                if nm in flshape: e[nm], inner[nm] = self.fl_fresh(flshape[nm], 'v_' + nm)
                else: e[nm] = Val(t, inner[nm])
            rty = mtype(self.effects, ('T', tuple(tys)) if len(tys) > 1 else tys[0])
            seen = []
            def done(e2):
                vals = [e2[v] if v in flshape else self.need(e2, v, s) for v in names]
                seen.append(vals)
                texts = [self.as_type(x, t, s) if final else '_' for x, t in zip(vals, tys)]
                return Val(rty, ok('(' + ', '.join(texts) + ')' if len(texts) > 1 else texts[0]))
            self.loop_stack.append(None)
            try:
                body = self.in_ctx('foldx', lambda: self.with_live(names, lambda: self.block(s.body, e, done, lambda v, e2: self.fail('return in a fold', s))))
            finally:
                self.loop_stack.pop()
            return body, inner, rty, seen

        for _ in range(4):
            saved = (self.counter, tr.counter, len(self.pending))
            self.trial += 1
            try: _, inner, _, seen = attempt(tys, False)
            finally: self.trial -= 1
            self.counter, tr.counter = saved[0], saved[1]; del self.pending[saved[2]:]
            new = list(tys)
            for row in seen:
                for i, x in enumerate(row):
                    if x.tx is not None and x.tx == inner[names[i]]: continue
                    m = absorb(new[i], acc_type(x))
                    if m is None and self.zint and accs[i].ty == 'I' and {new[i], acc_type(x)} == {'Z', 'S'}: m = 'S'      # round 6: an int variable that the body makes a float
                    if m is None: self.fail(f'loop changes the type of {names[i]}: {new[i]!r} / {tr.rtype(x)!r}', s)
                    new[i] = m
            if new == tys: break
            tys = new
        else:
            self.fail('types of the accumulators do not settle', s)
        if any(unresolved(t) for t in tys): self.fail(f'cannot infer the types of the accumulators {names}: {tys!r}', s)
        body, inner, rty, _ = attempt(tys, True)
        if tmatch(tr.rtype(body), rty) is None: self.fail(f'loop body of type {tr.rtype(body)!r} where {rty!r} is expected', s)
        pat = None
        for nm in names: pat = inner[nm] if pat is None else f'({pat}, {inner[nm]})'
        init = '(' + ', '.join(self.as_type(a, t, s) for a, t in zip(accs, tys)) + ')' if len(accs) > 1 else self.as_type(accs[0], tys[0], s)
        e2 = dict(env)
        opat = None
        for nm, t in zip(names, tys):
            if nm in flshape: e2[nm], fn = self.fl_fresh(flshape[nm], 'v_' + nm)
            else:
                fn = self.fresh('v_' + nm)
                e2[nm] = Val(t, fn)
            opat = fn if opat is None else f'({opat}, {fn})'
        r = self.block(rest, e2, cont, ret)
        if r.ty == 'K' and r.const is None: self.fail('a loop that may raise on a path that returns None', s)
        if is_mtype(tr.rtype(r)) is None:
            raise EffectInJoin(f'{self.path}:{s.lineno} ({self.fd.name}): the code after a loop that may raise is not a function result')
        lp = f"'({pat} : {coqty(('T', tuple(tys)))})" if len(names) > 1 else f'({pat} : {coqty(tys[0])})'
        arms = {('exc',): f'  | Raises e_ => {self.raise_text("e_")}\n  | Returns {opat} =>',
                ('fuel',): f'  | None => None\n  | Some {opat} =>',
                ('exc', 'fuel'): f'  | None => None\n  | Some (Raises e_) => {self.raise_text("e_")}\n  | Some (Returns {opat}) =>'}[tuple(sorted(fx_))]
        return self.retext(r, f'match {comb} (fun {lp} {xpat} =>\n  {tr.text(body)}) {it.tx} {init} with\n{arms}\n  {tr.text(r)}\n  end')

    def break_fold(self, s, rest, env, cont, ret):
        """`for <targets> in <dynamic list>` with `break` (no continue / return / else), its body pure:

            let '(_, <accumulators>) := fold_left (fun '(brk, <accumulators>) <item> => if brk then (brk, <accumulators>) else <body>)
                                                  <list> (false, <initial values>) in ..

        the body ends in (false, ..), a `break` is (true, ..): once the flag is set the remaining items leave the state unchanged.
        The accumulators' types are inferred as for a while loop; a variable initialised with an int literal and assigned run-time
        ints in the body (an index from enumerate) is a 'Z'."""
        tr = self.tr
        if s.orelse: self.fail('for-else', s)
        if self.has_return(s.body): self.fail('return inside a for loop with break', s)
        it = self.expr(s.iter, env)
        if not (isinstance(it.ty, tuple) and it.ty[0] == 'L' and it.ty[1] != '?' and it.tx is not None): self.fail(f'for-with-break over {it.ty!r}', s)
        et = it.ty[1]
        e1 = dict(env)
        if isinstance(s.target, ast.Name):
            targets = [s.target.id]; e1[s.target.id] = Val(et, 'v_' + s.target.id); xpat = 'v_' + s.target.id
        else:
            targets = [e.id for e in s.target.elts if isinstance(e, ast.Name)] if isinstance(s.target, ast.Tuple) else []
            if not targets or len(targets) != len(s.target.elts) or len(set(targets)) != len(targets) \
                    or not (isinstance(et, tuple) and et[0] == 'T' and len(et[1]) == len(targets)): self.fail('dynamic for target', s)
            xpat = None
            for nm, ty in zip(targets, et[1]):
                e1[nm] = Val(ty, 'v_' + nm)
                xpat = 'v_' + nm if xpat is None else f'({xpat}, v_{nm})'
            xpat = "'" + xpat
        names = self.loop_names(s, rest, env, targets)
        if not names: return self.block(rest, env, cont, ret)
        inits = [self.need(env, v, s) for v in names]
        tys = [tr.rtype(a) for a in inits]

        def attempt(tys, final):
            inner = {nm: self.fresh('v_' + nm) for nm in names}
            flag = self.fresh('brk')
            e = dict(e1)
            for nm, t in zip(names, tys): e[nm] = Val(t, inner[nm])
            seen = []
            def pack(b):
                def k(e2):
                    vals = [self.need(e2, v, s) for v in names]
                    seen.append(vals)
                    texts = [self.as_type(x, t, s) if final else (tr.text(x) if x.tx is not None or x.ty in ('I', 'K', 'FL', 'TUP') else '_') for x, t in zip(vals, tys)]
                    return Val(('T', ('B',) + tuple(tys)), '(' + ', '.join([b] + texts) + ')')
                return k
            self.loop_stack.append((pack('true'), None))
            try:
                body = self.in_ctx('pure', lambda: self.with_live(names, lambda: self.block(s.body, e, pack('false'), lambda v, e2: self.fail('return in a fold', s))))
            finally:
                self.loop_stack.pop()
            return body, inner, flag, seen

        for _ in range(4):
            saved = (self.counter, tr.counter)
            self.trial += 1
            try: _, inner, _, seen = attempt(tys, False)
            finally: self.trial -= 1
            self.counter, tr.counter = saved
            new = list(tys)
            for row in seen:
                for i, x in enumerate(row):
                    if x.tx is not None and x.tx == inner[names[i]]: continue      # the accumulator itself, unchanged
                    if x.ty == 'I' and new[i] == 'Z': continue
                    if x.ty == 'Z' and new[i] == 'S' and inits[i].ty == 'I': new[i] = 'Z'; continue
                    m = tmatch(new[i], tr.rtype(x))
                    if m is None: self.fail(f'for loop changes the type of {names[i]}: {new[i]!r} / {tr.rtype(x)!r}', s)
                    new[i] = m
            if new == tys: break
            tys = new
        else:
            self.fail('types of the accumulators do not settle', s)
        body, inner, flag, _ = attempt(tys, True)
        pat = "'((" + ', '.join([flag] + [inner[nm] for nm in names]) + ') : ' + coqty(('T', ('B',) + tuple(tys))) + ')'
        if xpat.startswith("'"): xpat = f"'({xpat[1:]} : {coqty(et)})"
        else: xpat = f'({xpat} : {coqty(et)})'
        keep = '(' + ', '.join([flag] + [inner[nm] for nm in names]) + ')'
        init = '(' + ', '.join(['false'] + [self.as_type(a, t, s) for a, t in zip(inits, tys)]) + ')'
        e2 = dict(env)
        outs = []
        for nm, t in zip(names, tys):
            fn = self.fresh('v_' + nm)
            e2[nm] = Val(t, fn); outs.append(fn)
        r = self.block(rest, e2, cont, ret)
        return self.retext(r, f"let '({', '.join(['_'] + outs)}) := fold_left (fun {pat} {xpat} => if {flag} then {keep} else\n  {tr.text(body)}) {it.tx} {init} in\n  {tr.text(r)}")

    def optionise(self, body, s):
        """text of an option-valued body whose leaves are SOME(v) or None; returns (text, element type)"""
        tr = self.tr
        tys = []
        def walk(v):
            if v.ty == 'SOME':
                inner = v.items[0]
                tys.append(tr.rtype(inner))
                return f'(Some ({tr.text(inner)}))'
            if v.ty == 'K' and v.const is None: return 'None'
            self.fail('find-first body too complex', s)
        t = walk(body) if body.ty in ('SOME', 'K') else None
        if t is None:
            # body is an if-expression produced by join(): handled there through unify on SOME/None
            self.fail('find-first body shape', s)
        return t, tys[0]


# join() needs to understand SOME/None leaves produced inside find-first bodies
_orig_unify = FunTx.unify
def _unify_some(self, a, b, n):
    if a.ty == 'SOME' or b.ty == 'SOME':
        def one(v):
            if v.ty == 'SOME': return f'(Some ({self.tr.text(v.items[0])}))', self.tr.rtype(v.items[0])
            if v.ty == 'K' and v.const is None: return 'None', None
            if v.ty == 'OPTX': return v.tx, v.const
            self.fail('find-first branch', n)
        (x, tx_), (y, ty_) = one(a), one(b)
        return x, y, ('OPTX', tx_ or ty_)
    return _orig_unify(self, a, b, n)
FunTx.unify = _unify_some
_orig_join = FunTx.join
def _join_some(self, c, a, b, n):
    if a.ty in ('SOME', 'OPTX') or b.ty in ('SOME', 'OPTX'):
        x, y, t = self.unify(a, b, n)
        return Val('OPTX', f'(if {c.tx} then {x} else {y})', const=t[1])
    return _orig_join(self, c, a, b, n)
FunTx.join = _join_some
_orig_opt = FunTx.optionise
def _optionise(self, body, s):
    if body.ty == 'OPTX': return body.tx, body.const
    if isinstance(body.ty, tuple) and body.ty[0] == 'O': return body.tx, body.ty[1]
    return _orig_opt(self, body, s)
FunTx.optionise = _optionise
_orig_retext = FunTx.retext
def _retext(self, r, t):
    if r.ty == 'OPTX': return Val('OPTX', t, const=r.const)
    if r.ty == 'SOME': return Val('OPTX', t.replace(self.tr.text(r.items[0]), self.tr.text(r.items[0])) if False else f'(Some ({self.tr.text(r.items[0])}))' if t == self.tr.text(r) else t, const=self.tr.rtype(r.items[0]))
    return _orig_retext(self, r, t)
FunTx.retext = _retext
_orig_text = Translator.text
def _text(self, v):
    if v.ty == 'SOME': return f'(Some ({self.text(v.items[0])}))'
    return _orig_text(self, v)
Translator.text = _text
_orig_rtype = Translator.rtype
def _rtype(self, v):
    if v.ty == 'SOME': return ('O', self.rtype(v.items[0]))
    if v.ty == 'OPTX': return ('O', v.const)
    return _orig_rtype(self, v)
Translator.rtype = _rtype


# ----------------------------------------------------------------------------- what to translate
TARGETS = [
    ('Point', '__add__'), ('Point', '__sub__'), ('Point', '__mul__'), ('Point', '__truediv__'), ('Point', 'dot'),
    ('Point', 'lerp'), ('Point', '__eq__'), ('Point', 'squareMagnitude'), ('Point', 'magnitude'), ('Point', 'toUnitVector'),
    ('Point', 'angle'), ('Point', 'fromAngle'), ('Point', 'rotated'), ('Point', 'rotate'), ('Point', 'squareDistanceFrom'),
    ('Point', 'distanceFrom'), ('Point', 'transformed'), ('Point', 'transform'), ('Point', 'rounded'), ('Point', 'slope'),
    ('mod:utils/__init__.py', 'quadraticRoots'),
    ('AffineTransformation', 'apply'), ('AffineTransformation', 'apply_backwards'), ('AffineTransformation', 'translation'),
    ('AffineTransformation', 'translate'), ('AffineTransformation', 'scaling'), ('AffineTransformation', 'scale'),
    ('AffineTransformation', 'reflection'), ('AffineTransformation', 'reflect'), ('AffineTransformation', 'rotation'),
    ('AffineTransformation', 'rotate'), ('AffineTransformation', 'invert'),
    ('BoundingBox', 'includes'), ('BoundingBox', 'overlaps'), ('BoundingBox', 'area'),
]
BOUNDS_TARGETS = [('BoundingBox', 'extend', (('ty', 'P'),)), ('BoundingBox', 'extend', (('ty', 'BB'),)),
                  ('Line', 'bounds'), ('QuadraticBezier', 'bounds'), ('CubicBezier', 'bounds')]
SHAPE_TARGETS = [('mod:path/geometricshapes.py', n) for n in ('Rectangle', 'Square', 'Ellipse', 'Circle')] + \
                [('global:path/geometricshapes.py', 'CIRCULAR_SUPERNESS')]
for _c in ('Line', 'QuadraticBezier', 'CubicBezier'):
    TARGETS += [(_c, m) for m in ('pointAtTime', 'splitAtTime', 'translated', 'rotated', 'scaled', 'transformed',
                                  'alignmentTransformation', 'aligned', 'reversed', 'tangentAtTime', 'normalAtTime',
                                  'startAngle', 'endAngle', 'curvatureAtTime', 'area', 'length', 'lengthAtTime')]
    TARGETS += [(_c, '_findRoots', ('x',)), (_c, '_findRoots', ('y',))]
TARGETS += [('QuadraticBezier', 'derivative'), ('CubicBezier', 'derivative'),
            ('Line', 'tOfPoint'), ('Line', 'slope'), ('Line', 'intercept'), ('Line', 'findExtremes'),
            ('QuadraticBezier', 'tOfPoint'), ('QuadraticBezier', '_findDRoots'), ('QuadraticBezier', 'findExtremes'),
            ('QuadraticBezier', 'toCubicBezier'),
            ('CubicBezier', '_findDRoots'), ('CubicBezier', 'findExtremes', (False,)), ('CubicBezier', 'hasLoop'),
            ('Line', '_bothPointsAreOnSameSideOfOrigin'), ('Line', '_line_line_intersections'),
            ('QuadraticBezier', '_curve_line_intersections_t'), ('CubicBezier', '_curve_line_intersections_t'),
            ('QuadraticBezier', '_curve_line_intersections'), ('CubicBezier', '_curve_line_intersections'),
            ] + [('CDF', 'S', (a, b)) for a in (2, 3, 4) for b in (2, 3, 4)] + [('CDF', 'D', (a, b)) for a in (2, 3, 4) for b in (2, 3, 4)]
SEGMENT_TARGETS = [(c, m) for c in ('Line', 'QuadraticBezier', 'CubicBezier') for m in ('clone', 'round')]
FIT_TARGETS = [('mod:utils/curvefitter.py', b) for b in ('B0', 'B1', 'B2', 'B3')] + [('CurveFit', 'computeHook'), ('CurveFit', 'estimateBi'),
                                                                                          ('CurveFit', 'chordLengthParameterize')]
SAMPLE_TARGETS = [(c, m) for m in ('sample', 'regularSampleTValue', 'regularSample') for c in ('Line', 'QuadraticBezier', 'CubicBezier')]
PATH_TARGETS = [('BezierPath', 'length'), ('BezierPath', 'pointAtTime'), ('BezierPath', 'lengthAtTime')] + \
               [(c, 'flatten') for c in ('Line', 'QuadraticBezier', 'CubicBezier')] + \
               [('BezierPath', m) for m in ('sample', 'regularSampleTValue', 'regularSample')]
NODELIST_TARGETS = [('Node', 'x'), ('Node', 'y')] + [('SegmentRepresentation', m) for m in ('toNodelist', 'appendSegment', 'fromNodelist')]
SPLIT_TARGETS = [('BezierPath', 'splitAtPoints'), ('BezierPath', 'addExtremes')]
SWEEP_TARGETS = [('mod:utils/linesweep.py', 'dequefilter'), ('mod:utils/linesweep.py', 'bbox_intersections')]
# round 4: the curve-curve recursion for the four pairs of curve classes (reached through _curve_curve_intersections), the dispatch for all nine pairs
_CURVES = (('QuadraticBezier', 'seg3'), ('CubicBezier', 'seg4'))
CURVECURVE_TARGETS = [(c, '_curve_curve_intersections', (('ty', t),)) for c, _ in _CURVES for _, t in _CURVES] + \
                     [(c, 'intersections', (('ty', t),)) for c in ('Line', 'QuadraticBezier', 'CubicBezier') for t in ('seg2', 'seg3', 'seg4')]
TARGETS += SHAPE_TARGETS + BOUNDS_TARGETS + SEGMENT_TARGETS + FIT_TARGETS + SAMPLE_TARGETS + PATH_TARGETS + NODELIST_TARGETS + SWEEP_TARGETS + SPLIT_TARGETS
# round 4: minDist once, parametric in what it reads of the finder; curveDistance for the nine pairs of classes
MINDIST_TARGETS = [('MinimumCurveDistanceFinder', 'minDist')] + \
                  [('mod:utils/curvedistance.py', 'curveDistance', (('ty', a), ('ty', b))) for a in ('seg2', 'seg3', 'seg4') for b in ('seg2', 'seg3', 'seg4')]
# round 4: the winding number
WINDING_TARGETS = [('BezierPath', 'bounds'), ('BezierPath', 'windingNumberOfPoint'), ('BezierPath', 'pointIsInside')]
TARGETS += CURVECURVE_TARGETS + MINDIST_TARGETS + WINDING_TARGETS
# round 5: the path-level drivers
PATHOPS_TARGETS = [('BezierPath', 'flatten'), ('BezierPath', 'getSelfIntersections'), ('BezierPath', 'distanceToPath'),
                   ('BezierPath', 'signed_area'), ('BezierPath', 'area'), ('BezierPath', 'direction')]
TARGETS += PATHOPS_TARGETS
# round 6: the whole curve fitter (appended to Gen/Fit.v after the definitions of the first round)
FIT6_TARGETS = [('CurveFit', n) for n in ('fitLine', '_leftTangent', '_rightTangent', 'centerTangent', 'leftTangent', 'rightTangent', 'estimateLengths',
                                          'generateBezier', 'newtonRaphsonFind', 'reparameterize', 'computeMaxError', '_fitCurve', 'fitCurve')] + [('BezierPath', 'fromPoints')]
TARGETS += FIT6_TARGETS
# round 6: the Boolean-operation glue (Gen/Clip.v); Segment.__eq__ for the nine pairs of classes
CLIP_TARGETS = [(c, '__eq__', (('ty', t),)) for c in ('Line', 'QuadraticBezier', 'CubicBezier') for t in ('seg2', 'seg3', 'seg4')] + \
               [('BezierPath', n) for n in ('clip', 'union', 'intersection', 'difference')]
TARGETS += CLIP_TARGETS
# round 7: the sampled lookup of a parameter on a cubic (Gen/Lookup.v)
LOOKUP_TARGETS = [('CubicBezier', 'tOfPoint')]
TARGETS += LOOKUP_TARGETS

# fixed text at the top of a generated file: the types and list helpers the effectful definitions are written with
PRELUDE = {'Sample': '''(* A function with a data-dependent `while` loop takes [fuel : nat] -- the number of iterations EVERY loop invocation may
   use -- and returns an option: None = the fuel ran out (never a normal value).  A function that can raise one of the
   modelled Python exceptions returns an [outcome]; both: [option (outcome _)].  ZeroDivisionError is NOT modelled here:
   as everywhere in Gen, `/` is the total [dvd]. *)
Inductive pyexc : Set := PyIndexError | PyValueError | PyOverflowError
  | PyAssertionError   (* a failing `assert` (the interpreter is not run with -O) *)
  | PyNoneError        (* None where an object is needed: CPython raises AttributeError or TypeError, the model does not say which *)
  | PyUnboundLocalError   (* a local variable read before any assignment to it has been executed *)
  | PyZeroDivisionError   (* round 6: only raised by the definitions written with checked arithmetic (Gen/Fit.v, Gen/Clip.v) *)
  | PyTypeError           (* round 6: None as an operand of list + *)
  | PyConvertError        (* round 6: pyclipper's conversion of a coordinate to an int fails (the abstract toZ is None) *)
  | PyClipperError.       (* round 6: pyclipper.ClipperException (the abstract clipper is None) *)
Inductive outcome (A : Type) : Type := Returns (a : A) | Raises (e : pyexc).
Arguments Returns {A}. Arguments Raises {A}.
(* l[-1]; None = IndexError *)
Fixpoint last_error {A : Type} (l : list A) : option A :=
  match l with [] => None | [a] => Some a | _ :: r => last_error r end.
(* [f x for x in l] when f may raise: in list order, the first exception wins *)
Fixpoint map_outcome {A B : Type} (f : A -> outcome B) (l : list A) : outcome (list B) :=
  match l with
  | [] => Returns []
  | a :: r => match f a with
              | Raises e => Raises e
              | Returns b => match map_outcome f r with Raises e => Raises e | Returns bs => Returns (b :: bs) end
              end
  end.
(* list access by a Python int held in a scalar (Ops has no T -> nat): l[k] and l[:k] for k >= 0 by counting down ... *)
Fixpoint nth_T {T A : Type} (O : Ops T) (l : list A) (k : T) : option A :=
  match l with
  | [] => None
  | a :: r => if ltb O k (ofZ O 1) then Some a else nth_T O r (sub O k (ofZ O 1))
  end.
Fixpoint take_T {T A : Type} (O : Ops T) (l : list A) (k : T) : list A :=
  match l with
  | [] => []
  | a :: r => if ltb O k (ofZ O 1) then [] else a :: take_T O r (sub O k (ofZ O 1))
  end.
Fixpoint drop_T {T A : Type} (O : Ops T) (l : list A) (k : T) : list A :=
  match l with
  | [] => []
  | _ :: r => if ltb O k (ofZ O 1) then l else drop_T O r (sub O k (ofZ O 1))
  end.
(* ... and Python's reading of a negative int: l[k] is l[len(l) + k] (None = IndexError), l[:k] drops the last -k items *)
Definition py_index {T A : Type} (O : Ops T) (l : list A) (k : T) : option A :=
  if ltb O k (ofZ O 0) then nth_T O (rev l) (sub O (neg O k) (ofZ O 1)) else nth_T O l k.
Definition py_slice_to {T A : Type} (O : Ops T) (l : list A) (k : T) : list A :=
  if ltb O k (ofZ O 0) then rev (drop_T O (rev l) (neg O k)) else take_T O l k.

''',
           'Nodelist': '''(* path/representations.  A node type is one of the three strings the library itself produces ("line", "curve", "offcurve");
   Node and SegmentRepresentation are records of the attributes their __init__ sets ([sr_path] is `self.path.closed`, the only
   thing ever read of the path).  Python ints computed at run time (indices) are Z, exact for every carrier. *)
Inductive nodetype : Set := Nt_line | Nt_curve | Nt_offcurve.
Definition nodetype_eqb (a b : nodetype) : bool :=
  match a, b with Nt_line, Nt_line | Nt_curve, Nt_curve | Nt_offcurve, Nt_offcurve => true | _, _ => false end.
Record gnode (T : Type) := GNode { n_point : pt T; n_type : nodetype }.
Arguments GNode {T}. Arguments n_point {T}. Arguments n_type {T}.
Record segrep (T : Type) := MkSegRep { sr_path : bool; sr_segments : list (segment T) }.
Arguments MkSegRep {T}. Arguments sr_path {T}. Arguments sr_segments {T}.
(* for x in l: <body that may raise>: the first step that raises ends the loop *)
Fixpoint fold_outcome {A B : Type} (f : A -> B -> outcome A) (l : list B) (a : A) : outcome A :=
  match l with
  | [] => Returns a
  | b :: r => match f a b with Raises e => Raises e | Returns a' => fold_outcome f r a' end
  end.
(* enumerate(l) *)
Fixpoint enumerate_from {A : Type} (i : Z) (l : list A) : list (Z * A) :=
  match l with [] => [] | a :: r => (i, a) :: enumerate_from (i + 1)%Z r end.
Definition enumerate_Z {A : Type} (l : list A) : list (Z * A) := enumerate_from 0%Z l.
(* l[k] (None = IndexError), l[k:] and l[:k] for a Python int k: a negative k counts from the end, slices clip *)
Definition py_index_Z {A : Type} (l : list A) (k : Z) : option A :=
  if (k <? 0)%Z then nth_error (rev l) (Z.to_nat (- k - 1)) else nth_error l (Z.to_nat k).
Definition py_slice_from_Z {A : Type} (l : list A) (k : Z) : list A :=
  if (k <? 0)%Z then skipn (length l - Z.to_nat (- k)) l else skipn (Z.to_nat k) l.
Definition py_slice_to_Z {A : Type} (l : list A) (k : Z) : list A :=
  if (k <? 0)%Z then firstn (length l - Z.to_nat (- k)) l else firstn (Z.to_nat k) l.

''',
           'Sweep': '''(* utils/linesweep.py.  A shape is an object of which the sweep uses its identity and its bounds(): a tag and a box.  `o != o2`
   between two shapes is the comparison of the tags (distinct objects compare unequal, an object equals itself).  A deque is
   a list (append on the right, popleft on the left).  In an instruction tuple the verb and the active list are references
   to one of the two local functions / one of the two local deques, in order of definition: bools, true = the first
   (add_to / active_a). *)
Definition shape (T : Type) : Type := (nat * bbox T)%type.
Definition shape_eqb {T : Type} (a b : shape T) : bool := Nat.eqb (fst a) (fst b).
(* sorted(l, key=f): stable, compares the keys with < only (insertion from the left, like [sort_] of Base/Ops.v) *)
Fixpoint insert_by {T A : Type} (O : Ops T) (key : A -> T) (x : A) (l : list A) : list A :=
  match l with
  | [] => [x]
  | y :: r => if ltb O (key x) (key y) then x :: y :: r else y :: insert_by O key x r
  end.
Definition sorted_by {T A : Type} (O : Ops T) (key : A -> T) (l : list A) : list A :=
  fold_left (fun acc x => insert_by O key x acc) l [].

''',
           'Split': '''(* path/__init__.py: splitAtPoints / addExtremes.  A dict is the association list of its items in first-insertion order; a key
   is looked up with a key equality applied to (stored key, looked-up key).  For segments: same class and numerically equal
   coordinates (CPython: equal hashes, then identity or ==; see tools/py2v.py 'DICT' for what this leaves out). *)
Definition pt_keyeq {T : Type} (O : Ops T) (a b : pt T) : bool := eqb O (px a) (px b) && eqb O (py a) (py b).
Definition segment_keyeq {T : Type} (O : Ops T) (a b : segment T) : bool :=
  match a, b with
  | SLine x, SLine y => pt_keyeq O (l0 x) (l0 y) && pt_keyeq O (l1 x) (l1 y)
  | SQuad x, SQuad y => pt_keyeq O (q0 x) (q0 y) && pt_keyeq O (q1 x) (q1 y) && pt_keyeq O (q2 x) (q2 y)
  | SCubic x, SCubic y => pt_keyeq O (c0 x) (c0 y) && pt_keyeq O (c1 x) (c1 y) && pt_keyeq O (c2 x) (c2 y) && pt_keyeq O (c3 x) (c3 y)
  | _, _ => false
  end.
Section Dict.
Context {K V : Type} (keq : K -> K -> bool).
(* k in d *)
Fixpoint dict_mem (d : list (K * V)) (k : K) : bool :=
  match d with [] => false | (k', _) :: r => if keq k' k then true else dict_mem r k end.
(* d[k]; None = KeyError *)
Fixpoint dict_get (d : list (K * V)) (k : K) : option V :=
  match d with [] => None | (k', v) :: r => if keq k' k then Some v else dict_get r k end.
(* d[k] = v: the stored key stays *)
Fixpoint dict_set (d : list (K * V)) (k : K) (v : V) : list (K * V) :=
  match d with
  | [] => [(k, v)]
  | (k', v') :: r => if keq k' k then (k', v) :: r else (k', v') :: dict_set r k v
  end.
End Dict.
(* if k not in d: d[k] = [];  d[k].append(x) *)
Fixpoint dict_append {K A : Type} (keq : K -> K -> bool) (d : list (K * list A)) (k : K) (x : A) : list (K * list A) :=
  match d with
  | [] => [(k, [x])]
  | (k', l) :: r => if keq k' k then (k', l ++ [x]) :: r else (k', l) :: dict_append keq r k x
  end.
(* for x in l: <body with while loops>: None = some step ran out of fuel *)
Fixpoint fold_option {A B : Type} (f : A -> B -> option A) (l : list B) (a : A) : option A :=
  match l with
  | [] => Some a
  | b :: r => match f a b with None => None | Some a' => fold_option f r a' end
  end.

'''}

PRELUDE['Fit'] = '''(* utils/curvefitter.py.  B0..B3, computeHook, estimateBi and chordLengthParameterize are the definitions of the first round (division is
   the total [dvd]).  The rest of the fitter (round 6) is written with CHECKED arithmetic: a division whose divisor is neither a non-zero
   literal nor guarded by the enclosing test is [Raises PyZeroDivisionError] on zero, math.sqrt is [Raises PyValueError] below zero, None
   as an operand of list + is [Raises PyTypeError]; computeHook / chordLengthParameterize are translated once more that way (suffix _zd).
   [fuel]: the iterations every `while` loop invocation may use; [depth]: the nested calls of _fitCurve still allowed. *)
(* for i in range(0, len(la)): lb[i] = f(la[i], lb[i]) -- IndexError when lb is the shorter one; the first failing step ends the loop *)
Fixpoint zip_update_outcome {A B : Type} (f : A -> B -> outcome B) (la : list A) (lb : list B) : outcome (list B) :=
  match la, lb with
  | [], _ => Returns lb
  | _ :: _, [] => Raises PyIndexError
  | a :: ra, b :: rb => match f a b with
                        | Raises e => Raises e
                        | Returns b' => match zip_update_outcome f ra rb with Raises e => Raises e | Returns r => Returns (b' :: r) end
                        end
  end.
Fixpoint zip_update_option_outcome {A B : Type} (f : A -> B -> option (outcome B)) (la : list A) (lb : list B) : option (outcome (list B)) :=
  match la, lb with
  | [], _ => Some (Returns lb)
  | _ :: _, [] => Some (Raises PyIndexError)
  | a :: ra, b :: rb => match f a b with
                        | None => None
                        | Some (Raises e) => Some (Raises e)
                        | Some (Returns b') => match zip_update_option_outcome f ra rb with
                                               | None => None
                                               | Some (Raises e) => Some (Raises e)
                                               | Some (Returns r) => Some (Returns (b' :: r))
                                               end
                        end
  end.

'''
PRELUDE['Clip'] = '''(* utils/booleanoperationsmixin.py: BooleanOperationsMixin.clip / union / intersection / difference.  The module pyclipper is an abstract
   parameter of the definitions, as in Hand/Clip.v: [toZ] is its int() conversion of a coordinate (None: it raises, [Raises PyConvertError]),
   [clipper ct subject_paths clip_paths] is Execute(ct, PFT_EVENODD, PFT_EVENODD) after the AddPath calls (None: ClipperException,
   [Raises PyClipperError]).  Paths are lists of segments; a flattened edge is a Line with its `_orig`; the reconstruction LUT is a dict
   (association list, Gen/Split.v) keyed by pairs of Points; the paths returned are (segments, closed). *)
Inductive clip_type : Set := Ct_intersection | Ct_union | Ct_difference | Ct_xor.      (* pyclipper.CT_INTERSECTION .. CT_XOR = 0 .. 3 *)
Definition pair_keyeq {A B : Type} (ea : A -> A -> bool) (eb : B -> B -> bool) (a b : A * B) : bool := ea (fst a) (fst b) && eb (snd a) (snd b).
(* the coordinates handed to AddPath, converted *)
Definition clip_pt {T : Type} (toZ : T -> option Z) (p : T * T) : option (Z * Z) :=
  match toZ (fst p), toZ (snd p) with Some x, Some y => Some (x, y) | _, _ => None end.
Fixpoint clip_poly {T : Type} (toZ : T -> option Z) (l : list (T * T)) : option (list (Z * Z)) :=
  match l with
  | [] => Some []
  | p :: r => match clip_pt toZ p, clip_poly toZ r with Some v, Some q => Some (v :: q) | _, _ => None end
  end.
Fixpoint clip_polys {T : Type} (toZ : T -> option Z) (l : list (list (T * T))) : option (list (list (Z * Z))) :=
  match l with
  | [] => Some []
  | p :: r => match clip_poly toZ p, clip_polys toZ r with Some v, Some q => Some (v :: q) | _, _ => None end
  end.

'''
PRELUDE['CurveCurve'] = '''(* utils/intersectionsmixin.py: the curve-curve subdivision.  [ranged]: a curved segment together with its `_range` attribute (a
   list of two numbers); a segment as its constructor made it has the range its __init__ sets, [Ranged s 0 1].  The recursion
   is a Fixpoint on [fuel], the number of nested calls still allowed ([None]: it ran out).  `"%.2f" % x` is the abstract
   parameter [fmt_2f : T -> K], [keq] the equality of the strings it produces; the dict `seen` is the association list of
   Gen/Split.v; the lazy `filter(filterSeen, found)` is the list it produces (tools/py2v.py, filter_idiom). *)
Record ranged (A T : Type) := Ranged { rg_seg : A; rg_lo : T; rg_hi : T }.
Arguments Ranged {A T}. Arguments rg_seg {A T}. Arguments rg_lo {A T}. Arguments rg_hi {A T}.

'''
PRELUDE['MinDist'] = '''(* utils/curvedistance.py: MinimumCurveDistanceFinder.minDist / curveDistance.  The finder is its mutable state (self.bestAlpha,
   self.iterations): a method that updates it returns (value, new state).  What else the method reads of the object is a
   parameter: len(self.bez1), len(self.bez2), the methods S and D (memo caches stripped; S and the table of D are generated
   per pair of classes in Gen/CurveDist.v).  [fuel] is the number of nested calls still allowed. *)
(* range(lo, hi) of run-time ints *)
Definition range_Z (lo hi : Z) : list Z := map (fun i => (lo + Z.of_nat i)%Z) (seq 0 (Z.to_nat (hi - lo))).
(* the tabulated D: outside the table the model FAILS (never a guess; Python computes D(r, k) for any r, k) *)
Definition table_get {T : Type} (tbl : list (list T)) (r k : Z) : outcome T :=
  if ((r <? 0) || (k <? 0))%Z then Raises PyIndexError else
  match nth_error tbl (Z.to_nat r) with
  | Some row => match nth_error row (Z.to_nat k) with Some d => Returns d | None => Raises PyIndexError end
  | None => Raises PyIndexError
  end.
(* for x in l: <body that may raise and run out of fuel> *)
Fixpoint fold_option_outcome {A B : Type} (f : A -> B -> option (outcome A)) (l : list B) (a : A) : option (outcome A) :=
  match l with
  | [] => Some (Returns a)
  | b :: r => match f a b with
              | None => None
              | Some (Raises e) => Some (Raises e)
              | Some (Returns a') => fold_option_outcome f r a'
              end
  end.

'''
PRELUDE['Winding'] = '''(* path/__init__.py: BezierPath.bounds / windingNumberOfPoint / pointIsInside.  An Intersection is kept together with its attribute
   seg1: [(segment T * (T * pt T * T))], the definitions suffixed _ixs below.  The two dicts are keyed by Point VALUES: CPython
   finds a stored key iff the hashes are equal and the keys are identical or stored.__eq__(new); with Point.__hash__ =
   hash(x) << 32 ^ hash(y) (assumed injective on the pairs that occur) that is: equal coordinates as floats and Point.__eq__. *)
Definition point_keyeq {T : Type} (O : Ops T) (stored k : pt T) : bool :=
  eqb O (px stored) (px k) && eqb O (py stored) (py k) && Point___eq__ O stored k.

'''
PRELUDE['PathOps'] = '''(* path/__init__.py: BezierPath.flatten / distanceToPath / signed_area / area / direction; utils/booleanoperationsmixin.py:
   getSelfIntersections.  A path whose `closed` flag matters is the pair (segments, closed); a segment of it comes with its `_orig`
   attribute (None: it has none), as the edges the flatteners produce.  A call on a segment of unknown class is a match on the class,
   every arm lifted to the union of the effects of the arms.  An Intersection is kept together with both its segments:
   [(segment T * segment T * (T * pt T * T))] (seg1, seg2, (t1, point, t2)), the definitions suffixed _ixss below.  A local variable
   that may still be unbound when it is read is an option; reading it then is [Raises PyUnboundLocalError]. *)

'''
PRELUDE['Lookup'] = '''(* round 7 -- cubicbezier.py: CubicBezier.tOfPoint (the sampled lookup of a parameter).  The running minimum `bestDist` starts as
   float("inf"); `Ops` has no infinity (the carrier R has none), so a variable initialised with float("inf") is an [option T]: None = +infinity,
   Some x = the float x.  The only operations on it are [ltb_xinf] -- `e < bestDist` -- and being replaced by a float (Some e): for these the
   option is equivalent to the float (Some +infinity and None behave alike).  "e < +infinity" holds iff e is neither NaN nor +infinity; on R: always. *)
Definition ltb_xinf {T : Type} (O : Ops T) (x : T) (y : option T) : bool :=
  match y with
  | Some b => ltb O x b
  | None => eqb O x x && negb (isinf_ O x && ltb O (ofZ O 0) x)
  end.

'''


def header(file, deps):
    imps = ''.join(f'From BZ Require Import Gen.{d}.\n' for d in deps)
    return ('(* GENERATED by tools/py2v.py from /repo/src/beziers -- do not edit; regenerated on every check run *)\n'
            'From Coq Require Import PrimFloat.\nFrom Coq Require Import ZArith List Bool.\nImport ListNotations.\n'
            'From BZ Require Import Base.Ops.\n' + imps + '\n')


def generate(outdir, targets=None):
    """translate; returns (dict file->text, fingerprints, errors)"""
    tr = Translator()
    errors = []
    for t in (targets or TARGETS):
        cls, name = t[0], t[1]
        consts = t[2] if len(t) > 2 else ()
        try:
            if cls == 'CDF' and name == 'S': tr.cdf_S(*consts)
            elif cls == 'CDF' and name == 'D': tr.cdf_D(*consts)
            elif cls.startswith('global:'): tr.global_target(cls[7:], name)
            else: tr.function(cls, name, consts)
        except Untranslatable as e:
            errors.append({'function': f'{cls}.{name}', 'error': str(e)})
            tr.inprogress.clear()
        except KeyError as e:
            errors.append({'function': f'{cls}.{name}', 'error': f'not found: {e}'})
            tr.inprogress.clear()
    texts = {}
    for i, f in enumerate(FILE_ORDER):
        texts[f] = header(f, [d for d in FILE_ORDER[:i] if d not in LEAF_FILES] + EXTRA_DEPS.get(f, [])) + PRELUDE.get(f, '') + '\n'.join(tr.out[f])
    os.makedirs(outdir, exist_ok=True)
    changed = []
    for f, t in texts.items():
        p = os.path.join(outdir, f + '.v')
        old = open(p).read() if os.path.exists(p) else None
        if old != t:
            open(p, 'w').write(t); changed.append(f)
    meta = {'fingerprints': tr.fingerprints, 'errors': errors, 'changed': changed,
            'functions': sorted(v[0] for v in tr.done.values())}
    json.dump(meta, open(os.path.join(outdir, 'meta.json'), 'w'), indent=1, sort_keys=True)
    return meta


if __name__ == '__main__':
    out = sys.argv[1] if len(sys.argv) > 1 else os.path.join(os.path.dirname(os.path.abspath(__file__)), '..', 'coq', 'Gen')
    m = generate(out)
    print(json.dumps({'changed': m['changed'], 'errors': m['errors'], 'n_functions': len(m['functions'])}))
    sys.exit(1 if m['errors'] else 0)
