#!/usr/bin/env python3
"""Kernel cross-check of the definitions added to the translator in the second round (Gen/Sample.v): the fuelled `while`
loops of utils/samplemixin.py (sample, regularSampleTValue, regularSample) for the three classes of segment AND for whole
paths, BezierPath.length / pointAtTime / lengthAtTime over `list (segment T)`, and the three flatten methods.  Every
definition is executed on floats inside Coq (vm_compute, fuel kernels.FUEL) and compared bit for bit with the Python method
it was generated from, on N random inputs each (default 120): the returned lists, and where Python raises IndexError /
ValueError / OverflowError the `Raises` value of the generated definition.  `None` (out of fuel) never agrees.

    cd <verif> && PYTHONPATH=/repo/src PYTHONHASHSEED=0 /venv/bin/python tools/bridge_check2.py [N] [seed] [name-substring]

Exit status 0 iff every case of every kernel agrees (and every kernel produced at least N cases)."""
import sys, os, json, random
sys.path.insert(0, os.path.dirname(os.path.abspath(__file__)))
import vlib, kernels


def main():
    n = int(sys.argv[1]) if len(sys.argv) > 1 else 120
    seed = int(sys.argv[2]) if len(sys.argv) > 2 else 20260930
    sub = sys.argv[3] if len(sys.argv) > 3 else ''
    names = [k.name for k in kernels.NEW_KERNELS2 if sub in k.name]
    res = kernels.cross_check('BRIDGE2', names, n, random.Random(seed), tag='bridge2')
    short = {d: v['cases'] for d, v in res['distribution'].items() if v['cases'] < n}
    ok = res['n'] == res['agree'] and not res['failing'] and not res['errors'] and not short
    print(json.dumps({'kernels': len(names), 'cases': res['n'], 'agree': res['agree'], 'failing': res['failing'][:10],
                      'failing_kernels': res.get('failing_kernels'), 'first_disagreement': res.get('first_disagreement'),
                      'errors': [e[-800:] for e in res['errors']], 'short_of_cases': short,
                      'python_outcomes': res.get('python_outcomes')}))
    print('BRIDGE2 CROSS-CHECK', 'PASS' if ok else 'FAIL')
    return 0 if ok else 1


if __name__ == '__main__':
    sys.exit(main())
