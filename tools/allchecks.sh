#!/bin/bash
# allchecks.sh [tier] : run every registered check on the unchanged tree, validate MANIFEST and evidence against the schemas
cd "$(dirname "$(readlink -f "$0")")/.."
TIER=${1:-quick}
fail=0
for p in $(python3 -c "import json; print(' '.join(c['property_id'] for c in json.load(open('MANIFEST.json'))['checks']))"); do
  out=$(./check $p --tier $TIER 2>&1); rc=$?
  echo "$out" | grep -v "^!" | grep -E "tier=|VIOLATION|broken:" | cut -c1-200
  echo "$out" | grep -c "^KNOWN-FINDING" | sed "s/^/  known-finding lines: /"
  [ $rc -ne 0 ] && { echo "  EXIT $rc for $p"; fail=1; }
done
python3-vt - <<'PY'
import json, jsonschema, glob
m = json.load(open('MANIFEST.json'))
jsonschema.validate(m, json.load(open('/root/.vp/MANIFEST.schema.json')))
es = json.load(open('/root/.vp/EVIDENCE.schema.json'))
for c in m['checks']:
    e = json.load(open(c['evidence_file'].replace('/verif/', './')))
    jsonschema.validate(e, es)
    assert e['coverage']['discharged'] == e['coverage']['obligations'], c['property_id']
print('manifest + %d evidence files valid' % len(m['checks']))
PY
exit $fail
