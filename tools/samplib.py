"""Shared by tools/props/C16.py and C17.py: receivers (segments, paths) for the sampling / flattening checks, their
rendering as Coq terms of Hand/Sample.v, and the reference geometry used by the search oracles."""
import math
import vlib, gen, ref
from beziers.point import Point
from beziers.line import Line
from beziers.quadraticbezier import QuadraticBezier
from beziers.cubicbezier import CubicBezier
from beziers.path import BezierPath
from beziers.path.geometricshapes import Rectangle, Ellipse, Circle

P = Point
IMPORTS = ['Gen.Point', 'Gen.Line', 'Gen.Quad', 'Gen.Cubic', 'Hand.Sample']
CAP = 4096            # nat bound handed to the model's fuel computation (fuel = min(CAP, ceil x) + 3)
POW2 = [4, 8, 16, 64, 256]


# ----------------------------------------------------------------------------- generators
def int_line(rng, L=None):
    """axis-parallel line of exact integer length"""
    L = L or rng.choice(POW2 + [10, 12, 20, 25, 100, rng.randint(10, 300)])
    x, y = float(rng.randint(-100, 100)), float(rng.randint(-100, 100))
    dx, dy = rng.choice([(1, 0), (-1, 0), (0, 1), (0, -1)])
    return Line(P(x, y), P(x + dx * L, y + dy * L))


def staircase(rng, lengths, closed=False):
    """connected axis-parallel lines of the given (integer) lengths: total length is their exact sum"""
    x, y = float(rng.randint(-50, 50)), float(rng.randint(-50, 50))
    segs = []
    for i, L in enumerate(lengths):
        if i % 2 == 0: nx, ny = x + L, y
        else: nx, ny = x, y + L
        segs.append(Line(P(x, y), P(nx, ny)))
        x, y = nx, ny
    p = BezierPath.fromSegments(segs); p.closed = closed
    return p


def split_int(rng, total, k):
    """k positive integers summing to total"""
    cuts = sorted(rng.sample(range(1, total), k - 1)) if k > 1 else []
    return [b - a for a, b in zip([0] + cuts, cuts + [total])]


def curve(rng, order, scale=200.0, fam=None):
    fam = fam or rng.choice(['float', 'int'])
    if fam == 'int': pts = [P(float(rng.randint(-int(scale), int(scale))), float(rng.randint(-int(scale), int(scale)))) for _ in range(order)]
    else: pts = [P(rng.uniform(-scale, scale), rng.uniform(-scale, scale)) for _ in range(order)]
    return gen.KINDS[order](*pts)


def uneven_quad(rng):
    """quadratic whose speed varies strongly: the control point sits on top of an end point or far beyond the chord"""
    a = P(rng.uniform(-100, 100), rng.uniform(-100, 100))
    d = P(rng.uniform(30, 300), rng.uniform(-300, 300))
    k = rng.choice(['at-start', 'at-end', 'beyond', 'behind', 'cusp'])
    if k == 'at-start': c = a + d * rng.choice([0.0, 1e-9, 1e-3, 0.01])
    elif k == 'at-end': c = a + d * rng.choice([1.0, 1 - 1e-9, 0.999, 0.99])
    elif k == 'beyond': c = a + d * rng.uniform(2, 6) + P(rng.uniform(-1, 1), rng.uniform(-1, 1))
    elif k == 'behind': c = a + d * rng.uniform(-5, -1) + P(rng.uniform(-1, 1), rng.uniform(-1, 1))
    else: c = a + d * rng.uniform(-3, 4)        # collinear: the curve retraces itself (cusp at the turning point)
    return QuadraticBezier(a, c, a + d)


def chain(rng, n, closed=False, scale=120.0, kinds=(2, 3, 4)):
    """connected chain of n mixed segments; a closed one returns to its start"""
    nodes = [P(rng.uniform(-scale, scale), rng.uniform(-scale, scale)) for _ in range(n + 1)]
    if closed: nodes[-1] = nodes[0]
    segs = []
    for a, b in zip(nodes, nodes[1:]):
        o = rng.choice(kinds)
        off = [P(rng.uniform(-scale, scale), rng.uniform(-scale, scale)) for _ in range(o - 2)]
        segs.append(gen.KINDS[o](a, *off, b))
    p = BezierPath.fromSegments(segs); p.closed = closed
    return p


def shape(rng):
    k = rng.choice(['rect-int', 'rect-int', 'rect', 'ellipse', 'circle'])
    o = P(float(rng.randint(-50, 50)), float(rng.randint(-50, 50)))
    if k == 'rect-int':
        w, h = rng.choice([(4, 4), (2, 2), (8, 8), (16, 16), (4, 12), (1, 3), (32, 96), (3, 5), (rng.randint(1, 60), rng.randint(1, 60))])
        return k, Rectangle(w, h, origin=o)
    if k == 'rect': return k, Rectangle(rng.uniform(3, 150), rng.uniform(3, 150), origin=o)
    if k == 'ellipse': return k, Ellipse(rng.uniform(5, 120), rng.uniform(5, 120), origin=o)
    return k, Circle(rng.uniform(3, 100), origin=o)


def receiver(rng, need_len=None):
    """(family, object, segs) -- object is a Segment or a BezierPath; segs its segment list (one element for a segment)"""
    fam = rng.choice(['int-line', 'int-line', 'line', 'quad', 'cubic', 'uneven-quad', 'staircase-pow2', 'staircase-int', 'shape', 'shape',
                      'chain-open', 'chain-closed', 'lines-path'])
    if fam == 'int-line': o = int_line(rng)
    elif fam == 'line': o = curve(rng, 2)
    elif fam == 'quad': o = curve(rng, 3)
    elif fam == 'cubic': o = curve(rng, 4)
    elif fam == 'uneven-quad': o = uneven_quad(rng)
    elif fam == 'staircase-pow2':
        tot = rng.choice(POW2 + [32, 128, 512]); o = staircase(rng, split_int(rng, tot, rng.randint(1, min(6, tot - 1))), rng.random() < 0.5)
    elif fam == 'staircase-int':
        tot = rng.randint(10, 400); o = staircase(rng, split_int(rng, tot, rng.randint(1, 6)), rng.random() < 0.5)
    elif fam == 'shape': fam, o = shape(rng)
    elif fam == 'chain-open': o = chain(rng, rng.randint(1, 6), False)
    elif fam == 'chain-closed': o = chain(rng, rng.randint(2, 6), True)
    else: o = chain(rng, rng.randint(1, 8), rng.random() < 0.5, kinds=(2,))
    return fam, o, segs_of(o)


def segs_of(o):
    return list(o.asSegments()) if isinstance(o, BezierPath) else [o]


def is_path(o): return isinstance(o, BezierPath)


def obj_json(o):
    if is_path(o): return {'path': [gen.seg_json(s) for s in o.asSegments()], 'closed': o.closed}
    return {'segment': gen.seg_json(o)}


def obj_from_json(j):
    if 'path' in j:
        p = BezierPath.fromSegments([gen.seg_from_json(s) for s in j['path']]); p.closed = j.get('closed', True)
        return p
    return gen.seg_from_json(j['segment'])


# ----------------------------------------------------------------------------- Coq rendering
def crecv(o):
    return vlib.clist([vlib.csegment(s) for s in o.asSegments()]) if is_path(o) else vlib.csegment(o)


def cres(val, render):
    """Python outcome -> Coq term of type res _ ; val is ('ok', v) or ('raise', name)"""
    if val[0] == 'raise': return f'(Raise {val[1]})'
    return f'(Ok {render(val[1])})'


def run(f):
    try:
        return ('ok', f())
    except (IndexError, ZeroDivisionError, ValueError, OverflowError) as e:
        return ('raise', type(e).__name__)


def cpts(l): return vlib.clist([vlib.cpt(p) for p in l])
def cfloats(l): return vlib.clist([vlib.fhex(x) for x in l])


# ----------------------------------------------------------------------------- reference geometry
def cps(s): return [(p.x, p.y) for p in s.points]


def true_length(o):
    return sum(ref.arc_length(cps(s)) for s in segs_of(o))


def locate(o, t):
    """segment index and local parameter the documentation promises for path parameter t"""
    segs = segs_of(o)
    if not is_path(o): return 0, t
    n = len(segs)
    if t >= 1.0: return n - 1, 1.0
    k = int(math.floor(t * n))
    return k, t * n - k


def true_length_to(o, t, cache=None):
    """true arc length from the start of o up to (path) parameter t"""
    segs = segs_of(o)
    k, u = locate(o, t)
    if cache is None: cache = {}
    if 'seg' not in cache: cache['seg'] = [ref.arc_length(cps(s)) for s in segs]
    return sum(cache['seg'][:k]) + ref.arc_length(cps(segs[k]), 0.0, u)


def ref_point(o, t):
    segs = segs_of(o)
    k, u = locate(o, t)
    return ref.bern(cps(segs[k]), u)


class ArcRef:
    """true arc length along a segment or path as a function of the (path) parameter; hodograph zeros are found once"""

    def __init__(self, o):
        self.o = o
        self.segs = segs_of(o)
        self.n = len(self.segs)
        self.cps = [cps(s) for s in self.segs]
        self.cuts = []
        for pts in self.cps:
            cuts = {0.0, 1.0}
            if len(pts) > 2:
                n = len(pts) - 1
                for k in (0, 1):
                    ws = [n * (b[k] - a[k]) for a, b in zip(pts, pts[1:])]
                    for r, _ in ref.poly_roots_01(ref.power_coeffs(ws)):
                        if 0.0 < r < 1.0: cuts.add(float(r))
            self.cuts.append(sorted(cuts))
        self.seglen = [self._arc(i, 0.0, 1.0) for i in range(self.n)]
        self.cum = [0.0]
        for L in self.seglen: self.cum.append(self.cum[-1] + L)
        self.total = self.cum[-1]

    def _arc(self, i, u0, u1):
        pts = self.cps[i]
        if len(pts) == 2: return math.hypot(pts[1][0] - pts[0][0], pts[1][1] - pts[0][1]) * (u1 - u0)
        if u1 <= u0: return 0.0
        ks = [u0] + [c for c in self.cuts[i] if u0 < c < u1] + [u1]
        return sum(ref.integrate(lambda t: ref.speed(pts, t), a, b, tol=1e-10) for a, b in zip(ks, ks[1:]))

    def locate(self, t):
        if self.n == 1 and not is_path(self.o): return 0, t
        if t >= 1.0: return self.n - 1, 1.0
        k = int(math.floor(t * self.n))
        return k, t * self.n - k

    def to(self, t):
        k, u = self.locate(t)
        return self.cum[k] + self._arc(k, 0.0, u)

    def between(self, t0, t1):
        return self.to(t1) - self.to(t0)

    def lookup_step(self, L):
        """largest true arc covered by a parameter increment of 1/L (stepping as the implementation does)"""
        if not (L > 0): return 0.0
        step = 1.0 / L
        t, prev, best = 0.0, 0.0, 0.0
        while t <= 1.0:
            cur = self.to(t)
            best = max(best, cur - prev); prev = cur
            t += step
        return max(best, self.total - prev)

    def point(self, t):
        k, u = self.locate(t)
        return ref.bern(self.cps[k], u)

    def scale(self):
        return max(1.0, max(abs(c) for pts in self.cps for p in pts for c in p))


def peaked_cubic(rng):
    """collinear cubic whose speed is a quadratic peaked at one end, e.g. |(1 - k t)^2|: max speed up to ~4x the mean"""
    k = rng.choice([3.0, 2.5, 3.5, rng.uniform(2, 5)])
    # hodograph q(t) = (1 - k t)^2 = 1 - 2k t + k^2 t^2 ; Bernstein coefficients b0 = 1, b1 = 1 - k, b2 = (1 - k)^2
    b = [1.0, 1.0 - k, (1.0 - k) ** 2]
    sc = rng.uniform(5, 120)
    d = Point(rng.uniform(-1, 1), rng.uniform(-1, 1))
    d = d * (1.0 / max(1e-9, math.hypot(d.x, d.y)))
    p = [Point(rng.uniform(-50, 50), rng.uniform(-50, 50))]
    for bi in b: p.append(p[-1] + d * (bi * sc / 3.0))
    if rng.random() < 0.5: p = p[::-1]
    return CubicBezier(*p)


def teardrop(rng):
    """a curve that comes back to its own start: a one-cubic loop, or a quadratic that goes out and straight back (long, although its ends coincide)"""
    a = P(rng.uniform(-100, 100), rng.uniform(-100, 100)) if rng.random() < 0.6 else P(float(rng.randint(-100, 100)), float(rng.randint(-100, 100)))
    w, h = rng.uniform(15, 150), rng.uniform(15, 150)
    if rng.random() < 0.75: c = CubicBezier(a, a + P(w, h * rng.uniform(0.2, 1)), a + P(-w, h), P(a.x, a.y))
    else: c = QuadraticBezier(a, a + P(w, h), P(a.x, a.y))
    if rng.random() < 0.5: c = c.rotated(a, rng.uniform(0, 6.283)); c.points[-1] = P(c.points[0].x, c.points[0].y)
    return c


def teardrop_path(rng):
    """a path with a teardrop hanging on one of its nodes (a node-to-itself curve between ordinary segments)"""
    t = teardrop(rng); a = t.points[0]
    pre = [Line(a + P(-rng.uniform(20, 90), -rng.uniform(5, 60)), P(a.x, a.y))] if rng.random() < 0.7 else []
    e = a + P(rng.uniform(20, 90), -rng.uniform(5, 60))
    post = [rng.choice([Line(P(a.x, a.y), e), QuadraticBezier(P(a.x, a.y), a.lerp(e, 0.5) + P(0.0, -20.0), e)])] if rng.random() < 0.7 or not pre else []
    segs = pre + [t] + post
    closed = False
    if len(segs) == 3 and rng.random() < 0.5: segs.append(Line(segs[-1].end, segs[0].start)); closed = True
    p = BezierPath.fromSegments(segs); p.closed = closed
    return p


def dominant_path(rng, closed=False):
    """one long line followed/preceded by several short ones: the per-segment share of the path parameter is very uneven"""
    k = rng.randint(4, 9)
    big = rng.choice([46, 96, 200, rng.randint(40, 400)])
    lens = [big] + [rng.choice([1, 1, 2, 3]) for _ in range(k)]
    if rng.random() < 0.5: lens = lens[::-1]
    xs = [0.0]
    for L in lens: xs.append(xs[-1] + L)
    y = float(rng.randint(-20, 20))
    p = BezierPath.fromSegments([Line(P(a, y), P(b, y)) for a, b in zip(xs, xs[1:])]); p.closed = closed
    return p
