#!/venv/bin/python
"""searchonly.py <ID> [--n K]  : run only the search oracle of a property (no Coq), against BEZIERS_REPO (default /repo).
Debugging aid for seeded changes: prints failure classes and the first failures."""
import os, sys, json, random, importlib, collections
os.environ.setdefault('PYTHONHASHSEED', '0')
VERIF = os.path.dirname(os.path.dirname(os.path.abspath(__file__)))
sys.path.insert(0, os.path.join(VERIF, 'tools'))
REPO = os.environ.get('BEZIERS_REPO', '/repo')
os.environ.setdefault('BEZIERS_SRC', os.path.join(REPO, 'src', 'beziers'))
sys.path.insert(0, os.path.join(REPO, 'src'))
sys.dont_write_bytecode = True
import vlib


class Ctx:
    def __init__(self, pid, tier, seed, esc):
        self.pid, self.tier, self.seed = pid, tier, seed
        self.rng = random.Random(seed * 1000003 + sum(map(ord, pid)))
        self.escalated = esc

    def n(self, quick, thorough):
        k = thorough if self.tier == 'thorough' else quick
        return k * 4 if self.escalated else k


pid = sys.argv[1]
esc = '--esc' in sys.argv
seed = int(os.environ.get('VERIF_SEED', '0') or 0)
mod = importlib.import_module(f'props.{pid}')
ctx = Ctx(pid, os.environ.get('VERIF_TIER', 'quick'), seed, esc)
r = mod.search(ctx)
known = {f['class'] for f in vlib.known_findings() if f.get('property') == pid and f.get('status', 'open') == 'open'}
cnt = collections.Counter(f.get('class') for f in r['failures'])
print('evaluations', r['evaluations'], 'failures', dict(cnt), 'known classes', sorted(known))
new = [f for f in r['failures'] if f.get('class') not in known]
for f in new[:3]:
    print(json.dumps({k: f[k] for k in ('class', 'what', 'input')}, default=str)[:1500])
sys.exit(1 if new else 0)
