#!/usr/bin/env python3
"""Kernel cross-check of the definitions added to the translator in the fourth round -- the recursive drivers:

  Gen/CurveCurve.v  IntersectionsMixin._curve_curve_intersections_t (a Fixpoint on fuel for each of the four pairs of curve classes, the
                    segments carrying their `_range`), _curve_curve_intersections, and the dispatch `intersections` for the nine pairs of
                    classes (utils/intersectionsmixin.py); AssertionError (`assert lo < hi`) as `Raises PyAssertionError`; the abstract
                    format parameter "%.2f" % t1 instantiated with the exact binary64 key key2F / keyF_eqb of Hand/CurveCurve.v;
  Gen/MinDist.v     MinimumCurveDistanceFinder.minDist as a state-passing Fixpoint, parametric in S and D, and curveDistance for the
                    nine pairs of classes with the generated S / the generated D table (utils/curvedistance.py), fuel 100;
  Gen/Winding.v     BezierPath.bounds / windingNumberOfPoint / pointIsInside (path/__init__.py): the Intersections with their seg1, the
                    two dicts keyed by Point value, the winding counts as Z; an empty path (TypeError in addMargin) as `Raises PyNoneError`.

Every definition is executed on floats inside Coq (vm_compute) and compared with the Python function it was generated from,
structure for structure and bit for bit, on N random inputs each (default 120; pairs of curves that cross, that do not, pieces
with hand-set ranges, coordinates ~1e30 on which Python raises AssertionError).

    cd <verif> && PYTHONPATH=/repo/src PYTHONHASHSEED=0 /venv/bin/python tools/bridge_check4.py [N] [seed] [name-substring]

Exit status 0 iff every case of every kernel agrees (and every kernel produced at least N cases)."""
import sys, os, json, random
sys.path.insert(0, os.path.dirname(os.path.abspath(__file__)))
import vlib, kernels


def main():
    n = int(sys.argv[1]) if len(sys.argv) > 1 else 120
    seed = int(sys.argv[2]) if len(sys.argv) > 2 else 20261001
    sub = sys.argv[3] if len(sys.argv) > 3 else ''
    names = [k.name for k in kernels.NEW_KERNELS4 if sub in k.name]
    res = kernels.cross_check('BRIDGE4', names, n, random.Random(seed), tag='bridge4')
    short = {d: v['cases'] for d, v in res['distribution'].items() if v['cases'] < n}
    ok = res['n'] == res['agree'] and not res['failing'] and not res['errors'] and not short
    print(json.dumps({'kernels': len(names), 'cases': res['n'], 'agree': res['agree'], 'failing': res['failing'][:10],
                      'failing_kernels': res.get('failing_kernels'), 'first_disagreement': res.get('first_disagreement'),
                      'errors': [e[-800:] for e in res['errors']], 'short_of_cases': short,
                      'python_outcomes': res.get('python_outcomes')}))
    print('BRIDGE4 CROSS-CHECK', 'PASS' if ok else 'FAIL')
    return 0 if ok else 1


if __name__ == '__main__':
    sys.exit(main())
