#!/venv/bin/python
"""Records the AST fingerprints of the Python functions each hand model transcribes (tools/golden_fingerprints.json).
A changed fingerprint is not an alarm: it escalates that run's correspondence/search budget (DESIGN 2.3)."""
import os, sys, json, importlib
V = os.path.dirname(os.path.dirname(os.path.abspath(__file__)))
sys.path.insert(0, os.path.join(V, 'tools')); sys.path.insert(0, '/repo/src')
import vlib
out = {}
for f in sorted(os.listdir(os.path.join(V, 'tools', 'props'))):
    if f.startswith('C') and f.endswith('.py'):
        m = importlib.import_module('props.' + f[:-3])
        out[f[:-3]] = vlib.ast_fingerprints(getattr(m, 'HAND_FINGERPRINTS', []))
json.dump(out, open(os.path.join(V, 'tools', 'golden_fingerprints.json'), 'w'), indent=1, sort_keys=True)
print({k: len(v) for k, v in out.items()})
