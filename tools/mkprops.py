#!/usr/bin/env python3
"""One-off helper: build coq/Props/<ID>.v from named lemmas of proof files (statement copied, proof = exact lemma).
Usage: mkprops.py ID header.txt Proofs/File.v:lemma1,lemma2 [Proofs/Other.v:...] -- imports...
The generated file is then committed and treated as the static statement of record."""
import re, sys, os
V = os.path.dirname(os.path.dirname(os.path.abspath(__file__)))


def split_binders_stmt(sig):
    """sig = text between the lemma name and the final '.', i.e. 'binders : statement' ; split at the top-level ':'"""
    depth = 0
    i = 0
    while i < len(sig):
        ch = sig[i]
        if ch in '([{': depth += 1
        elif ch in ')]}': depth -= 1
        elif ch == ':' and depth == 0 and sig[i + 1:i + 2] != '=' :
            return sig[:i].strip(), sig[i + 1:].strip()
        i += 1
    raise ValueError('no colon in ' + sig[:80])


def main():
    pid, header = sys.argv[1], sys.argv[2]
    specs, imports = [], []
    rest = sys.argv[3:]
    if '--' in rest:
        k = rest.index('--'); specs, imports = rest[:k], rest[k + 1:]
    else: specs = rest
    out = [open(header).read().rstrip() + '\n']
    mods = []
    thms = []
    for spec in specs:
        f, names = spec.split(':')
        mods.append(f[:-2].replace('/', '.'))
        src = open(os.path.join(V, 'coq', f)).read()
        src_nc = re.sub(r'\(\*.*?\*\)', '', src, flags=re.S)
        for nm in names.split(','):
            m = re.search(r'^\s*(?:Lemma|Theorem|Example|Corollary|Remark|Fact)\s+' + re.escape(nm) + r'\b(.*?)\.\s*\n\s*Proof', src_nc, re.S | re.M)
            if not m: raise SystemExit(f'{nm} not found in {f}')
            binders, stmt = split_binders_stmt(m.group(1))
            stmt = ' '.join(stmt.split())
            binders = ' '.join(binders.split())
            full = f'forall {binders}, {stmt}' if binders else stmt
            thms.append((f'{pid}_{nm}', full, nm))
    coquelicot = 'Coquelicot' in imports
    imports = [i for i in imports if i != 'Coquelicot']
    out.append('From Coq Require Import PrimFloat.\nFrom Coq Require Import ZArith List Bool Reals Lra Permutation Sorted.\n' + ('From Coquelicot Require Import Coquelicot.\n' if coquelicot else '') +
               'From BZ Require Import Base.Ops ' + ' '.join(imports) + ' ' + ' '.join(mods) + '.\nImport ListNotations.\nOpen Scope R_scope.\n')
    for t, full, nm in thms:
        out.append(f'Theorem {t} :\n  {full}.\nProof. exact {nm}. Qed.')
    out.append('')
    for t, _, _ in thms: out.append(f'Print Assumptions {t}.')
    open(os.path.join(V, 'coq', 'Props', pid + '.v'), 'w').write('\n'.join(out) + '\n')
    print(pid, len(thms), 'theorems')


main()
