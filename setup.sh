#!/bin/sh
# Build the whole Coq development once, offline, from files on disk: regenerate the model from /repo, then make.
set -e
cd "$(dirname "$(readlink -f "$0")")"
/venv/bin/python - <<'PY'
import sys
import os; sys.path.insert(0, os.path.join(os.getcwd(), 'tools'))
import vlib
with vlib.Lock():
    meta = vlib.regenerate()
    print("py2v:", len(meta["functions"]), "functions;", "errors:", meta["errors"])
    if meta["errors"]: sys.exit(1)
    vlib.ensure_makefile()
    rc, out, dt = vlib.make([], timeout=3000)
    print(out[-3000:])
    print('make rc', rc, 'in %.0fs' % dt)
    sys.exit(0 if rc == 0 else 1)
PY
